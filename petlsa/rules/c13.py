"""C13 -- selections return exactly the satisfying rows; complement is the exact rest."""
from __future__ import annotations

import ast
import copy
import re

from ..absint import parent_map, enclosing
from ..loader import norm, own_nodes, AnalysisError

PROP = 'C13'
CONTROL = 'c13'

# documented predicate of each selector over the cell value `v` (row for rowlenselect)
SELECTORS = {
    'selecteq': 'v == value', 'selectne': 'v != value',
    'selectlt': 'v < value', 'selectle': 'v <= value', 'selectgt': 'v > value', 'selectge': 'v >= value',
    'selectcontains': 'value in v', 'selectin': 'v in value', 'selectnotin': 'v not in value',
    'selectis': 'v is value', 'selectisnot': 'v is not value', 'selectisinstance': 'isinstance(v, value)',
    'selectnone': 'v is None', 'selectnotnone': 'v is not None',
    'selecttrue': 'bool(v)', 'selectfalse': 'not bool(v)',
    'selectrangeopenleft': 'minv <= v < maxv', 'selectrangeopenright': 'minv < v <= maxv',
    'selectrangeopen': 'minv <= v <= maxv', 'selectrangeclosed': 'minv < v < maxv',
    'rowlenselect': 'len(v) == n',
}
OPERATOR_FORMS = {
    'eq': '{a} == {b}', 'ne': '{a} != {b}', 'lt': '{a} < {b}', 'le': '{a} <= {b}', 'gt': '{a} > {b}',
    'ge': '{a} >= {b}', 'contains': '{b} in {a}', 'is_': '{a} is {b}', 'is_not': '{a} is not {b}',
}
NEG = {ast.Eq: ast.NotEq, ast.NotEq: ast.Eq, ast.Lt: ast.GtE, ast.GtE: ast.Lt, ast.Gt: ast.LtE, ast.LtE: ast.Gt,
       ast.In: ast.NotIn, ast.NotIn: ast.In, ast.Is: ast.IsNot, ast.IsNot: ast.Is}


class _Undecided(Exception):
    pass


class _Composed(Exception):
    pass


# ----------------------------------------------------------- predicate normal form
class _Norm(ast.NodeTransformer):
    def __init__(self, param):
        self.param = param

    def visit_Name(self, node):
        if node.id == self.param:
            return ast.copy_location(ast.Name(id='v', ctx=node.ctx), node)
        return node

    def visit_Call(self, node):
        self.generic_visit(node)
        # Comparable(x) is transparent for the predicate (ordering decided by C04)
        if isinstance(node.func, ast.Name) and node.func.id == 'Comparable' and len(node.args) == 1:
            return node.args[0]
        return node

    def visit_BoolOp(self, node):
        self.generic_visit(node)
        # `a <= v and v < b` is the chained comparison `a <= v < b` (v is a plain name: evaluated twice or once alike)
        if isinstance(node.op, ast.And) and len(node.values) == 2 and all(isinstance(x, ast.Compare) for x in node.values):
            l, r = node.values
            if isinstance(r.left, ast.Name) and norm(l.comparators[-1]) == norm(r.left):
                return ast.copy_location(ast.Compare(left=l.left, ops=list(l.ops) + list(r.ops),
                                                     comparators=list(l.comparators) + list(r.comparators)), node)
        return node

    def visit_UnaryOp(self, node):
        self.generic_visit(node)
        if isinstance(node.op, ast.Not) and isinstance(node.operand, ast.Compare) and len(node.operand.ops) == 1:
            op = type(node.operand.ops[0])
            if op in NEG:
                c = copy.deepcopy(node.operand)
                c.ops = [NEG[op]()]
                return c
        return node


def predicate_text(fn, ctx):
    """Canonical text of the predicate a selector function applies to v."""
    rets = [n for n in own_nodes(fn.node) if isinstance(n, ast.Return) and isinstance(n.value, ast.Call)]
    if len(rets) != 1:
        raise _Undecided('expected one return of a select(...) call')
    call = rets[0].value
    callee = norm(call.func)
    if callee == 'selectop':
        if len(call.args) < 4:
            raise _Undecided('selectop call shape')
        valnode = call.args[2]
        # a local bound once (reference = Comparable(value)) stands for what it was bound to
        for _ in range(3):
            if isinstance(valnode, ast.Name) and valnode.id not in fn.params:
                binds = ctx.res.local_bindings(fn).get(valnode.id, [])
                vals = [b[1] for b in binds if b[0] == 'assign']
                if len(vals) == 1 and len(binds) == 1:
                    valnode = vals[0]
                    continue
            break
        op = call.args[3]
        opn = norm(op)
        # Comparable(x) is transparent for an ORDERING predicate (the ordering is decided by C04); for ==, !=, in, is it
        # is not: Comparable.__eq__ makes a list equal to a tuple and loses the identity shortcut
        if isinstance(valnode, ast.Call) and norm(valnode.func) == 'Comparable' and len(valnode.args) == 1 and \
                opn in ('operator.lt', 'operator.le', 'operator.gt', 'operator.ge'):
            valnode = valnode.args[0]
        valname = norm(valnode)
        if opn.startswith('operator.') and opn[9:] in OPERATOR_FORMS:
            return OPERATOR_FORMS[opn[9:]].format(a='v', b=valname), call
        if opn == 'isinstance':
            return 'isinstance(v, %s)' % valname, call
        if isinstance(op, ast.Lambda) and len(op.args.args) == 2:
            a, b = op.args.args[0].arg, op.args.args[1].arg
            body = copy.deepcopy(op.body)
            body = _Norm(a).visit(body)

            class R(ast.NodeTransformer):
                def visit_Name(self, node):
                    if node.id == b:
                        return ast.Name(id=valname, ctx=node.ctx)
                    return node
            body = R().visit(body)
            return norm(ast.fix_missing_locations(body)), call
        raise _Undecided('operator %s' % opn)
    if callee == 'select':
        lam = None
        for a in call.args:
            if isinstance(a, ast.Lambda):
                lam = a
            elif isinstance(a, ast.Name):
                # a local bound to a lambda
                vals = [b[1] for b in ctx.res.local_bindings(fn).get(a.id, []) if b[0] == 'assign']
                if len(vals) == 1 and isinstance(vals[0], ast.Lambda):
                    lam = vals[0]
        if lam is None or len(lam.args.args) != 1:
            raise _Undecided('no predicate lambda')
        # locals of the selector bound once (ref = Comparable(value), lo = Comparable(minv)) are written in place
        single = {}
        for nme, binds in ctx.res.local_bindings(fn).items():
            vals = [b[1] for b in binds if b[0] == 'assign']
            if len(vals) == 1 and len(binds) == 1 and nme not in fn.params and not isinstance(vals[0], ast.Lambda):
                single[nme] = vals[0]

        class _Loc(ast.NodeTransformer):
            def visit_Name(self, node):
                if isinstance(node.ctx, ast.Load) and node.id in single and node.id != lam.args.args[0].arg:
                    return copy.deepcopy(single[node.id])
                return node
        body0 = _Loc().visit(copy.deepcopy(lam.body)) if single else copy.deepcopy(lam.body)
        body = _Norm(lam.args.args[0].arg).visit(body0)
        return norm(ast.fix_missing_locations(body)), call
    if callee in SELECTORS and callee != fn.name:
        # delegation to another selector: fine when it selects from `table` itself with all arguments handed on;
        # a selection of a selection applies `complement` to the outer predicate only
        if not call.args or not isinstance(call.args[0], ast.Name):
            raise _Composed('%s(%s, ...)' % (callee, norm(call.args[0])[:40] if call.args else ''))
        pred = SELECTORS[callee]
        names = [norm(a) for a in call.args[2:]]
        for placeholder, actual in zip([w for w in ('value', 'minv', 'maxv', 'n') if w in pred], names):
            pred = re.sub(r'\\b%s\\b' % placeholder, actual, pred)
        return pred, call
    raise _Undecided('returns %s(...)' % callee)


# --------------------------------------------------------------------- XOR guard
class _Obj(object):
    """a predicate result that is not a bool: only its truth value is known (a match object, a length, None, '')"""
    def __init__(self, truth):
        self.truth = truth

    def __bool__(self):
        return self.truth


# the outcomes a user predicate can have: the two bools and an arbitrary truthy / falsy object
PRED_OUTCOMES = (('False', False), ('a falsy non-bool', _Obj(False)), ('True', True), ('a truthy non-bool', _Obj(True)))


def _bool_eval(e, P, C, pred_names, defs=None):
    """Evaluate a guard over the predicate outcome P (a bool or an _Obj) and the complement flag C.  Truth contexts
    (if, not, and/or, bool()) coerce; == / != / is compare the objects, so a non-bool outcome equals neither flag."""
    if isinstance(e, ast.BoolOp):
        vals = [bool(_bool_eval(v, P, C, pred_names, defs)) for v in e.values]
        return all(vals) if isinstance(e.op, ast.And) else any(vals)
    if isinstance(e, ast.UnaryOp) and isinstance(e.op, ast.Not):
        return not bool(_bool_eval(e.operand, P, C, pred_names, defs))
    if isinstance(e, ast.Compare) and len(e.ops) == 1 and isinstance(e.ops[0], (ast.Eq, ast.NotEq, ast.Is, ast.IsNot)):
        a = _bool_eval(e.left, P, C, pred_names, defs)
        b = _bool_eval(e.comparators[0], P, C, pred_names, defs)
        eq = isinstance(e.ops[0], (ast.Eq, ast.Is))
        same = (a is b) if (isinstance(a, _Obj) or isinstance(b, _Obj)) else (a == b)
        return same if eq else (not same)
    if isinstance(e, ast.Call) and isinstance(e.func, ast.Name) and e.func.id == 'bool' and len(e.args) == 1:
        return bool(_bool_eval(e.args[0], P, C, pred_names, defs))
    if isinstance(e, ast.Call) and norm(e.func) in ('operator.truth',) and len(e.args) == 1:
        return bool(_bool_eval(e.args[0], P, C, pred_names, defs))
    if isinstance(e, ast.Call) and norm(e.func) in ('operator.not_',) and len(e.args) == 1:
        return not bool(_bool_eval(e.args[0], P, C, pred_names, defs))
    if isinstance(e, ast.Call) and isinstance(e.func, ast.Name) and e.func.id in pred_names:
        return P
    if isinstance(e, ast.Name) and e.id == 'complement':
        return C
    if isinstance(e, ast.Name) and e.id in pred_names:
        return P
    if isinstance(e, ast.Constant) and isinstance(e.value, bool):
        return e.value
    if isinstance(e, ast.IfExp):
        return _bool_eval(e.body, P, C, pred_names, defs) if bool(_bool_eval(e.test, P, C, pred_names, defs)) \
            else _bool_eval(e.orelse, P, C, pred_names, defs)
    if isinstance(e, ast.Name) and defs and e.id in defs:
        return _bool_eval(defs[e.id], P, C, pred_names, {k: v for k, v in defs.items() if k != e.id})
    raise _Undecided('guard construct %s' % norm(e))


def _yield_conditions(fn, loop):
    """For each `yield` in the loop body: the list of (test, polarity) guards."""
    pm = parent_map(fn.node)
    out = []
    for n in ast.walk(loop):
        if isinstance(n, ast.Yield):
            conds = []
            for p, c in enclosing(pm, n, stop=loop):
                if isinstance(p, ast.If):
                    if any(c is b for b in p.body):
                        conds.append((p.test, True))
                    elif any(c is b for b in p.orelse):
                        conds.append((p.test, False))
                if p is loop:
                    break
            # loop-level guards: an enclosing `if` around the loop itself (itersearch)
            for p, c in enclosing(pm, loop, stop=fn.node):
                if isinstance(p, ast.If):
                    if any(c is b for b in p.body):
                        conds.append((p.test, True))
                    elif any(c is b for b in p.orelse):
                        conds.append((p.test, False))
            out.append((n, conds))
    return out


COPY_CALLS = ('tuple', 'list', 'Record')


def _is_row(e, aliases):
    if isinstance(e, ast.Name):
        return e.id in aliases
    if isinstance(e, ast.Call) and norm(e.func) in COPY_CALLS and e.args:
        return _is_row(e.args[0], aliases)
    return False


def _row_aliases(loop):
    """names that stand for the current input row inside a data loop: the loop target and every local bound (once per
    pass) to it or to a copy of it (tuple(row), list(row), Record(row, flds))"""
    aliases = set()
    if isinstance(loop.target, ast.Name):
        aliases.add(loop.target.id)
    changed = True
    while changed:
        changed = False
        for n in ast.walk(loop):
            if isinstance(n, ast.Assign) and len(n.targets) == 1 and isinstance(n.targets[0], ast.Name) and \
                    n.targets[0].id not in aliases and _is_row(n.value, aliases):
                aliases.add(n.targets[0].id)
                changed = True
    return aliases


def check_xor(ctx, rep, fn, pred_names):
    loops = [n for n in own_nodes(fn.node) if isinstance(n, ast.For)]
    data_loops = [l for l in loops if any(isinstance(x, ast.Yield) for x in ast.walk(l))]
    if not data_loops:
        rep.violated('R13.1', fn, 'def ' + fn.name, 'no yielding data loop found', fn.node)
        return
    ys = []
    for l in data_loops:
        ys += _yield_conditions(fn, l)
    # locals bound exactly once in the function (split guards: `accepted = bool(where(row))`, `wanted = not complement`)
    counts = {}
    for n in own_nodes(fn.node):
        if isinstance(n, ast.Assign) and len(n.targets) == 1 and isinstance(n.targets[0], ast.Name):
            counts.setdefault(n.targets[0].id, []).append(n.value)
    defs = {k: v[0] for k, v in counts.items() if len(v) == 1 and k not in pred_names and k != 'complement'}
    try:
        for pname, P in PRED_OUTCOMES:
            for C in (False, True):
                n_yield = 0
                for y, conds in ys:
                    if all(bool(_bool_eval(t, P, C, pred_names, defs)) == pol for t, pol in conds):
                        n_yield += 1
                want = 1 if (bool(P) != C) else 0
                case = 'predicate=%s complement=%s' % (pname, C)
                if n_yield == want:
                    rep.held('R13.1', fn, case, '%d row(s) yielded' % n_yield, fn.node)
                else:
                    rep.violated('R13.1', fn, case,
                                 'the row is yielded %d time(s) when the predicate is %s and complement is %s; a selection '
                                 'and its complement must partition the input (yield iff predicate XOR complement)'
                                 % (n_yield, pname, C), ys[0][0] if ys else fn.node)
    except _Undecided as e:
        rep.undecided('R13.1', fn, 'XOR guard', str(e), fn.node)
    # yielded value is the row itself (or a plain copy of it), whatever the locals are called
    for l in data_loops:
        aliases = _row_aliases(l)
        for y, conds in _yield_conditions(fn, l):
            v = y.value
            txt = norm(v) if v is not None else ''
            if v is None or not _is_row(v, aliases):
                rep.violated('R13.1', fn, 'yield ' + txt, 'a selection must deliver the row unchanged', y)


def run(ctx):
    rep = ctx.report
    from .common import check_record_leaks as _recleaks
    rep.rule('R13.6', 'a Record built for a user callable never leaves the operator: output rows are plain tuples')
    ctx.floor('record_building_functions', _recleaks(ctx, rep, 'R13.6', ctx.functions(['petl.transform.selects'])), 2)
    rep.explanation = (
        'Decides that every selector applies exactly its documented predicate and that complement is the exact Boolean '
        'complement: (R13.1) the guard of the yield in iterfieldselect / iterrowselect / itersearch is evaluated for all '
        'four valuations of (predicate, complement) and must be XOR with exactly one yield of the unchanged row; a cell '
        'missing from a short row is read as `missing`; (R13.2) the predicate of each of the 21 selector functions is '
        'normalised (operator.X(a, b) == the comparison form, lambda parameter renamed, Comparable() transparent) and '
        'compared with its documented predicate, and complement / missing are forwarded unchanged; (R13.3) '
        'searchcomplement, biselect and facet are built from the same constructor with complement True/False resp. '
        'selecteq per value; (R13.4) rowslice/head/tail/skip hand the user\'s arguments to itertools.islice unchanged. '
        'Together with C04-R4.2 (>= is not <) this gives lt/ge etc. complementarity for all values.')
    rep.rule('R13.1', 'yield iff predicate XOR complement; exactly one yield of the unchanged row; missing cell -> `missing`')
    rep.rule('R13.2', 'each selector applies its documented predicate and forwards complement/missing unchanged')
    rep.rule('R13.3', 'complement siblings: searchcomplement / biselect / facet')
    rep.rule('R13.7', 'search applies the pattern to the text of one cell at a time')
    ctx.attempt(r137, ctx, rep)
    from .common import module_state_mutations as _modstate
    rep.rule('R13.10', 'what a selection applies depends on its arguments alone: the selection code keeps no module-level memo (compiled patterns, predicates) that an earlier call with other arguments could have filled')
    _nm = 0
    for _fn in ctx.functions(['petl.transform.selects', 'petl.transform.regex']):
        for _n, _g in (ctx.attempt(_modstate, _fn) or []):
            _nm += 1
            rep.violated('R13.10', _fn, norm(_n)[:60], 'the module-level object `%s` is changed here: what a later call computes can '
                         'depend on an earlier call (e.g. a program compiled for the same pattern with other flags is reused)' % _g, _n)
    if not _nm:
        rep.held('R13.10', ('petl.transform.selects', '*'), 'no module-level state is written', '', None)
    rep.rule('R13.13', 'every pass of a selection resolves the field against the header it reads: the select views keep no state that an iterator writes (C01 R1.3 imported for petl.transform.selects / regex)')
    ctx.attempt(r1313, ctx, rep)
    rep.rule('R13.12', 'the reference values of a selector (value, minv, maxv, n ...) reach the predicate as the caller gave them: they are not re-bound before the predicate reads them')
    ctx.attempt(r1312, ctx, rep)
    from .common import check_selector_truth as _seltruth
    rep.rule('R13.9', 'a field selector (name or position; 0 and \'\' are valid) is never tested for truth')
    ctx.floor('selector_functions', ctx.attempt(_seltruth, ctx, rep, 'R13.9', ctx.functions(
        ['petl.transform.selects', 'petl.transform.regex'])) or 0, 3)
    # R13.8: the comparison selectors are exact complements of each other (selectlt / selectge, selectgt / selectle) only
    # if <=, >, >= are the stated functions of < and == on Comparable (C04 R4.2) -- the selectors reach them through the
    # reflected operators of the wrapped reference value
    from . import c04 as _c04
    from ..report import Report as _Report
    _sub = _Report('C04', ctx.tier, ctx.root)
    _saved = ctx.report
    ctx.report = _sub
    try:
        _c04.r42(ctx, _sub)
        _mark = len(_sub.obligations)
        # ... and only if == on Comparable agrees with the ordering (neither < nor > exactly when ==): selecteq / selectne,
        # the boundary rows of selectge / selectlt and selectrange* (C04 R4.1)
        _c04.r41(ctx, _sub)
    finally:
        ctx.report = _saved
    _n = 0
    for _i, _o in enumerate(_sub.obligations):
        if _o.module == 'petl.comparison':
            _n += 1
            rep.add('R13.8' if _i < _mark else 'R13.11', (_o.module, _o.qualname), _o.construct, _o.status, _o.message,
                    _o.lineno, _o.detail)
    rep.rule('R13.11', 'the class-level table of Comparable.__lt__ / __eq__ is the stated order and == agrees with it (C04 R4.1)')
    rep.rule('R13.8', 'derived comparison operators of Comparable are the stated functions of < and == (C04 R4.2)')
    if _n < 3:
        raise AnalysisError('anchor vanished: derived operators of Comparable (%d)' % _n)
    rep.rule('R13.4', 'positional selection = itertools.islice with the user\'s arguments')
    rep.assumptions = ['Comparable defines all six operators, so mixed raw/wrapped comparisons land in its ladder (C04)',
                       'user predicates are pure']
    rep.trusted = ['documented predicate table SELECTORS (from the docstrings)']
    mod = ctx.project.modules.get('petl.transform.selects')
    if mod is None:
        raise AnalysisError('anchor vanished: petl.transform.selects')
    # R13.1
    ctx.attempt(check_xor, ctx, rep, ctx.project.need_fn('petl.transform.selects:iterfieldselect'), {'where'})
    ctx.attempt(check_xor, ctx, rep, ctx.project.need_fn('petl.transform.selects:iterrowselect'), {'where'})
    ctx.attempt(check_xor, ctx, rep, ctx.project.need_fn('petl.transform.regex:itersearch'), {'test'})
    cm = ctx.project.modules.get('petl._controls.' + CONTROL)
    if cm is not None:
        for q, fn in cm.functions.items():
            if q.startswith(('bad_xor', 'good_xor')):
                check_xor(ctx, rep, fn, {'where'})
    ctx.attempt(_missing_cell, ctx, rep, ctx.project.need_fn('petl.transform.selects:iterfieldselect'))
    # R13.2
    n = 0
    targets = []
    for name, want in SELECTORS.items():
        fn = mod.functions.get(name)
        if fn is None:
            raise AnalysisError('anchor vanished: selector %s' % name)
        targets.append((fn, want))
    if cm is not None:
        for q, fn in cm.functions.items():
            base = q.split('_', 1)[1] if '_' in q else q
            if q.startswith(('bad_', 'good_')) and base in SELECTORS:
                targets.append((fn, SELECTORS[base]))
    for fn, want in targets:
        real = not fn.module.name.startswith('petl._controls')
        if real:
            n += 1
        try:
            got, call = predicate_text(fn, ctx)
        except _Composed as e:
            rep.violated('R13.2', fn, 'predicate',
                         '%s is built as a selection of a selection (%s): `complement` then negates only the outer '
                         'predicate, so the selection and its complement no longer partition the input' % (fn.name, e), fn.node)
            continue
        except _Undecided as e:
            rep.undecided('R13.2', fn, 'predicate', str(e), fn.node)
            continue
        if got == want:
            rep.held('R13.2', fn, 'predicate', got, fn.node)
        else:
            rep.violated('R13.2', fn, 'predicate',
                         '%s applies `%s`, its documented predicate is `%s`' % (fn.name, got, want), call)
        _forwarding(rep, fn, call, ('complement',))
    ctx.floor('selectors', n, 21)
    # select(): both views receive missing and complement
    sel = ctx.project.need_fn('petl.transform.selects:select')
    for node in own_nodes(sel.node):
        if isinstance(node, ast.Call) and norm(node.func) in ('RowSelectView', 'FieldSelectView'):
            _forwarding(rep, sel, node, ('complement', 'missing'))
    sop = ctx.project.need_fn('petl.transform.selects:selectop')
    for node in own_nodes(sop.node):
        if isinstance(node, ast.Call) and norm(node.func) == 'select':
            _forwarding(rep, sop, node, ('complement',))
    ctx.attempt(r133, ctx, rep)
    ctx.attempt(r134, ctx, rep)
    from .plumbing import check_plumbing
    rep.rule('R13.5', 'view -> iterator plumbing of the selections: self.X reaches the parameter named X')
    ctx.floor('plumbing_sites', check_plumbing(ctx, rep, 'R13.5', ['petl.transform.selects']), 10)


def _forwarding(rep, fn, call, names):
    for nm in names:
        ok = False
        for k in call.keywords:
            if k.arg == nm and isinstance(k.value, ast.Name) and k.value.id == nm:
                ok = True
            if k.arg is None:
                ok = True
        if ok:
            rep.held('R13.2', fn, '%s(..., %s=%s)' % (norm(call.func), nm, nm), 'forwarded', call)
        else:
            rep.violated('R13.2', fn, '%s(..., %s=%s)' % (norm(call.func), nm, nm),
                         '`%s` is not forwarded unchanged to %s: the selection silently uses the default'
                         % (nm, norm(call.func)), call)


def _missing_cell(ctx, rep, fn):
    ok = False
    # (also inside a closure of the iterator: `def getvalue(row): try: return getv(row) except IndexError: return missing`)
    for n in ast.walk(fn.node):
        if isinstance(n, ast.Try):
            for h in n.handlers:
                if h.type is not None and 'IndexError' in norm(h.type):
                    for s in h.body:
                        if isinstance(s, (ast.Assign, ast.Return)) and s.value is not None and norm(s.value) == 'missing':
                            ok = True
    if ok:
        rep.held('R13.1', fn, 'missing cell', 'IndexError -> v = missing', fn.node)
    else:
        rep.violated('R13.1', fn, 'missing cell',
                     'a cell missing from a short row is no longer read as `missing` before the predicate is applied', fn.node)


def r133(ctx, rep):
    sc = ctx.project.need_fn('petl.transform.regex:searchcomplement')
    s = ctx.project.need_fn('petl.transform.regex:search')

    def ctor_call(fn):
        for n in own_nodes(fn.node):
            if isinstance(n, ast.Return) and isinstance(n.value, ast.Call):
                return n.value
        return None
    a, b = ctor_call(s), ctor_call(sc)
    if a is None or b is None:
        rep.undecided('R13.3', sc, 'searchcomplement', 'no constructor call', sc.node)
    else:
        # either the same constructor, or a delegation to search() itself
        same = norm(a.func) == norm(b.func) or (
            norm(b.func) == 'search' and b.args and norm(b.args[0]) == 'table' and
            any(isinstance(x, ast.Starred) for x in b.args) and any(k.arg is None for k in b.keywords))
        comp = [k for k in b.keywords if k.arg == 'complement']
        ok = same and comp and isinstance(comp[0].value, ast.Constant) and comp[0].value.value is True and \
            not any(k.arg == 'complement' for k in a.keywords)
        if ok:
            rep.held('R13.3', sc, 'searchcomplement', 'same view as search with complement=True', sc.node)
        else:
            rep.violated('R13.3', sc, 'searchcomplement',
                         'searchcomplement must construct the same view as search with complement=True '
                         '(search: %s; searchcomplement: %s)' % (norm(a), norm(b)), b)
    bi = ctx.project.need_fn('petl.transform.selects:biselect')
    # biselect returns (select(table, *args, complement=False), select(table, *args, complement=True)) on the same
    # arguments, however the complement is put into the call (kwargs['complement'] = ..., **dict(kwargs, complement=...),
    # an explicit keyword)
    cur = None          # current constant of kwargs['complement']
    results = {}        # local name -> (argument text, complement)
    ret = None

    def describe(call):
        comp = cur
        rest = []
        for a0 in call.args:
            rest.append(norm(a0))
        for k in call.keywords:
            if k.arg == 'complement' and isinstance(k.value, ast.Constant):
                comp = k.value.value
            elif k.arg is None and isinstance(k.value, ast.Call) and norm(k.value.func) == 'dict':
                inner = [kk for kk in k.value.keywords if kk.arg == 'complement' and isinstance(kk.value, ast.Constant)]
                if inner:
                    comp = inner[0].value.value
                rest.append('**' + ', '.join(norm(x) for x in k.value.args))
            elif k.arg is None:
                rest.append('**' + norm(k.value))
            else:
                rest.append('%s=%s' % (k.arg, norm(k.value)))
        return (tuple(rest), comp)
    for st in bi.node.body:
        if isinstance(st, ast.Assign) and isinstance(st.targets[0], ast.Subscript) and \
                norm(st.targets[0]) == "kwargs['complement']" and isinstance(st.value, ast.Constant):
            cur = st.value.value
        elif isinstance(st, ast.Assign) and isinstance(st.value, ast.Call) and norm(st.value.func) == 'select' and \
                isinstance(st.targets[0], ast.Name):
            results[st.targets[0].id] = describe(st.value)
        elif isinstance(st, ast.Return) and isinstance(st.value, ast.Tuple) and len(st.value.elts) == 2:
            ret = []
            for e in st.value.elts:
                if isinstance(e, ast.Name) and e.id in results:
                    ret.append(results[e.id])
                elif isinstance(e, ast.Call) and norm(e.func) == 'select':
                    ret.append(describe(e))
                else:
                    ret.append(None)
    if ret and all(r is not None for r in ret) and ret[0][1] is False and ret[1][1] is True and ret[0][0] == ret[1][0] and \
            ret[0][0][:2] == ('table', '*args'):
        rep.held('R13.3', bi, 'biselect', 'select(...complement=False), select(...complement=True) on the same arguments', bi.node)
    elif ret is None or any(r is None for r in (ret or [None])):
        rep.undecided('R13.3', bi, 'biselect', 'the two selections are not recognised', bi.node)
    else:
        rep.violated('R13.3', bi, 'biselect', 'expected (select(table, *args, complement=False), select(table, *args, '
                     'complement=True)) on the same arguments, found %s' % (ret,), bi.node)
    fc = ctx.project.need_fn('petl.transform.selects:facet')
    calls = [n for n in own_nodes(fc.node) if isinstance(n, ast.Call) and norm(n.func) == 'selecteq']
    if len(calls) == 1 and len(calls[0].args) == 3 and norm(calls[0].args[0]) == 'table' and norm(calls[0].args[1]) == 'key':
        rep.held('R13.3', fc, 'facet', 'one selecteq(table, key, v) per distinct value', fc.node)
    else:
        rep.violated('R13.3', fc, 'facet', 'facet must build selecteq(table, key, v) for each distinct value', fc.node)


def _single_defs(fn):
    counts = {}
    for n in own_nodes(fn.node):
        if isinstance(n, ast.Assign) and len(n.targets) == 1:
            t = n.targets[0]
            if isinstance(t, ast.Name):
                counts.setdefault(t.id, []).append(n.value)
            elif isinstance(t, ast.Tuple) and isinstance(n.value, ast.Tuple) and len(t.elts) == len(n.value.elts):
                for a, v in zip(t.elts, n.value.elts):
                    if isinstance(a, ast.Name):
                        counts.setdefault(a.id, []).append(v)
    return {k: v[0] for k, v in counts.items() if len(v) == 1}


def _deref(e, defs, depth=0):
    while isinstance(e, ast.Name) and e.id in defs and depth < 4:
        e = defs[e.id]
        depth += 1
    return e


def _truthy_default(fn, attr, param):
    """value stored in self.<attr> when `param` is empty / non-empty: ('param' | text of the expression) per scenario"""
    out = {}
    for scen, truth in (('empty', False), ('given', True)):
        def test(t):
            if isinstance(t, ast.Name) and t.id == param:
                return truth
            if isinstance(t, ast.UnaryOp) and isinstance(t.op, ast.Not):
                v = test(t.operand)
                return None if v is None else (not v)
            if isinstance(t, ast.Compare) and len(t.ops) == 1 and norm(t.left) == 'len(%s)' % param and \
                    isinstance(t.comparators[0], ast.Constant) and t.comparators[0].value == 0:
                if isinstance(t.ops[0], ast.Eq):
                    return not truth
                if isinstance(t.ops[0], (ast.Gt, ast.NotEq)):
                    return truth
            return None

        def ev(e):
            if isinstance(e, ast.BoolOp) and isinstance(e.op, ast.Or) and len(e.values) == 2 and test(e.values[0]) is not None:
                return ev(e.values[0]) if test(e.values[0]) else ev(e.values[1])
            if isinstance(e, ast.IfExp) and test(e.test) is not None:
                return ev(e.body if test(e.test) else e.orelse)
            return norm(e)

        def run(stmts, cur):
            for st in stmts:
                if isinstance(st, ast.Assign) and any(norm(t) == 'self.' + attr for t in st.targets):
                    cur = ev(st.value)
                elif isinstance(st, ast.If):
                    t = test(st.test)
                    if t is None:
                        if any(isinstance(x, ast.Assign) and any(norm(tt) == 'self.' + attr for tt in x.targets)
                               for x in ast.walk(st)):
                            raise _Undecided('test `%s`' % norm(st.test))
                        continue
                    cur = run(st.body if t else st.orelse, cur)
            return cur
        out[scen] = run(fn.node.body, None)
    return out


def r134(ctx, rep):
    """rowslice / head / tail / skip select by position exactly as itertools.islice would: decided on the data flow
    (which iterator is sliced with which arguments), not on the spelling."""
    rs = ctx.project.need_fn('petl.transform.basics:iterrowslice')
    defs = _single_defs(rs)
    sp = rs.posparams[1] if len(rs.posparams) > 1 else None
    calls = [n for n in own_nodes(rs.node) if isinstance(n, ast.Call) and norm(n.func) in ('islice', 'itertools.islice')]
    ok = False
    if len(calls) == 1 and sp is not None:
        c = calls[0]
        src = _deref(c.args[0], defs) if c.args else None
        data_iter = isinstance(c.args[0], ast.Name) and isinstance(src, ast.Call) and norm(src.func) == 'iter' and \
            src.args and norm(src.args[0]) == rs.posparams[0]
        star = len(c.args) == 2 and isinstance(c.args[1], ast.Starred) and norm(c.args[1].value) == sp
        # the yielding loop ranges over that islice object
        loops = [l for l in own_nodes(rs.node) if isinstance(l, ast.For) and any(isinstance(x, ast.Yield) for x in ast.walk(l))]
        ranged = any(_deref(l.iter, defs) is c or l.iter is c for l in loops)
        ok = data_iter and star and ranged
    if ok:
        rep.held('R13.4', rs, 'islice(it, *sliceargs)', 'the data iterator is sliced with the user\'s arguments', rs.node)
    else:
        rep.violated('R13.4', rs, 'islice(it, *sliceargs)',
                     'rowslice must apply itertools.islice(<data iterator>, *<slice arguments>) to the data rows and yield '
                     'from it; found %s' % [norm(c) for c in calls], rs.node)
    rv = ctx.project.need_fn('petl.transform.basics:RowSliceView.__init__')
    vp = rv.vararg or 'sliceargs'
    try:
        got = _truthy_default(rv, 'sliceargs', vp)
        if got['given'] == vp and got['empty'] in ('(None,)', vp):
            rep.held('R13.4', rv, 'self.sliceargs', 'the user\'s slice arguments are stored unchanged (no arguments -> %s)' % got['empty'], rv.node)
        else:
            rep.violated('R13.4', rv, 'self.sliceargs',
                         'the slice arguments are rewritten before they reach itertools.islice (given -> %s, none -> %s): e.g. a '
                         'stop of 0 or a step are no longer interpreted as islice would' % (got['given'], got['empty']), rv.node)
    except _Undecided as e:
        rep.undecided('R13.4', rv, 'self.sliceargs', str(e), rv.node)
    hd = ctx.project.need_fn('petl.transform.basics:head')
    calls = [n for n in own_nodes(hd.node) if isinstance(n, ast.Call) and
             ctx.res.callee_names(hd, n) & {'petl.transform.basics:rowslice', 'petl.transform.basics:RowSliceView'}]
    if len(calls) == 1 and [norm(a) for a in calls[0].args] == [hd.posparams[0], hd.posparams[1]] and not calls[0].keywords:
        rep.held('R13.4', hd, 'rowslice(table, n)', '', hd.node)
    else:
        rep.violated('R13.4', hd, 'rowslice(table, n)', 'head(n) must be rowslice(table, n); found %s' % [norm(c) for c in calls], hd.node)
    sk = ctx.project.need_fn('petl.transform.headers:iterskip')
    calls = [n for n in own_nodes(sk.node) if isinstance(n, ast.Call) and norm(n.func) in ('islice', 'itertools.islice')]
    skd = _single_defs(sk)
    good = False
    if len(calls) == 1 and len(calls[0].args) == 3:
        a0 = _deref(calls[0].args[0], skd)
        a0t = norm(a0)
        a1t = norm(_deref(calls[0].args[1], skd))
        a2t = norm(_deref(calls[0].args[2], skd))
        if sk.posparams and sk.posparams[0] == 'self':
            # the view does the slicing itself (iterskip inlined into SkipView.__iter__)
            srcs, ns = ('self.source', 'iter(self.source)'), ('self.n',)
        else:
            srcs = (sk.posparams[0], 'iter(%s)' % sk.posparams[0])
            ns = (sk.posparams[1],) if len(sk.posparams) > 1 else ()
        good = a0t in srcs and a1t in ns and a2t == 'None'
    if good:
        rep.held('R13.4', sk, 'islice(source, n, None)', '', sk.node)
    else:
        rep.violated('R13.4', sk, 'islice(source, n, None)', 'skip(n) must be islice(source, n, None); found %s' % [norm(c) for c in calls], sk.node)
    tl = ctx.project.need_fn('petl.transform.basics:itertail')
    # a window that never holds more than n rows: deque(maxlen=n), or append + popleft under len(window) > n
    tld = _single_defs(tl)
    npar = tl.posparams[1] if len(tl.posparams) > 1 else 'n'
    deques = [k for k, v in tld.items() if isinstance(v, ast.Call) and norm(v.func) in ('deque', 'collections.deque')]
    ok = False
    for w in deques:
        v = tld[w]
        if any(k.arg == 'maxlen' and norm(k.value) == npar for k in v.keywords) or \
                (len(v.args) == 2 and norm(v.args[1]) == npar):
            ok = True
        pops = {'%s.popleft' % w} | {k for k, d in tld.items() if norm(d) == '%s.popleft' % w}
        for n in own_nodes(tl.node):
            if isinstance(n, ast.If) and norm(n.test) in ('len(%s) > %s' % (w, npar), '%s < len(%s)' % (npar, w)):
                if any(isinstance(x, ast.Call) and norm(x.func) in pops for s2 in n.body for x in ast.walk(s2)):
                    ok = True
    if ok:
        rep.held('R13.4', tl, 'tail window', 'keeps the last n rows', tl.node)
    elif not deques:
        rep.undecided('R13.4', tl, 'tail window', 'no deque window recognised', tl.node)
    else:
        rep.violated('R13.4', tl, 'tail window', 'tail(n) must keep exactly the last n rows (deque bounded by n)', tl.node)


# ------------------------------------------------------------------------ R13.7
def r137(ctx, rep):
    """search(table, pattern[, field]) selects the rows in which the pattern
    matches *a value*: the compiled pattern is applied to the text of one cell
    at a time (any() over the cells).  Applied to several cells joined into one
    string, anchors (^ $ \\A \\Z) only see the first / last cell and classes
    that match the separator let a match span two cells."""
    fn = ctx.project.need_fn('petl.transform.regex:itersearch')
    progs = set()
    for x in own_nodes(fn.node):
        if isinstance(x, ast.Assign) and isinstance(x.value, ast.Call) and norm(x.value.func) in ('re.compile', 'compile'):
            for t in x.targets:
                if isinstance(t, ast.Name):
                    progs.add(t.id)
    if not progs:
        raise AnalysisError('anchor vanished: compiled pattern of itersearch')
    n = 0
    for x in ast.walk(fn.node):
        if not (isinstance(x, ast.Call) and isinstance(x.func, ast.Attribute) and isinstance(x.func.value, ast.Name)
                and x.func.value.id in progs and x.func.attr in ('search', 'match', 'fullmatch', 'findall', 'finditer')):
            continue
        n += 1
        c = norm(x)[:70]
        a = x.args[0] if x.args else None
        ok = False
        why = 'argument shape not recognised'
        if a is not None and isinstance(a, ast.Call) and norm(a.func) in ('text_type', 'str') and len(a.args) == 1:
            v = a.args[0]
            if isinstance(v, ast.Name):
                # a comprehension variable ranging over the cells
                comp = [g for p in ast.walk(fn.node) if isinstance(p, (ast.GeneratorExp, ast.ListComp))
                        for g in p.generators if isinstance(g.target, ast.Name) and g.target.id == v.id
                        and any(y is x for y in ast.walk(p))]
                ok = bool(comp)
            elif isinstance(v, ast.Subscript) and not isinstance(v.slice, ast.Slice):
                ok = True
        if a is not None and any(isinstance(y, ast.Attribute) and y.attr == 'join' for y in ast.walk(a)) or \
                (a is not None and any(isinstance(y, (ast.BinOp, ast.JoinedStr)) for y in ast.walk(a))):
            rep.violated('R13.7', fn, c,
                         'the pattern is applied to several cells combined into one string (`%s`): ^ and $ then only match '
                         'at the first / last cell and a match can span two cells, so rows move between search and '
                         'searchcomplement' % norm(a)[:60], x)
        elif ok:
            rep.held('R13.7', fn, c, 'applied to the text of one cell', x)
        else:
            rep.undecided('R13.7', fn, c, why, x)
    if n < 1:
        raise AnalysisError('anchor vanished: itersearch applies the pattern at %d sites' % n)


# ------------------------------------------------------------------------- R13.12
def r1312(ctx, rep):
    """The documented predicate of selectin is `v in value` for the caller's `value`: re-binding the name to something made
    from it (frozenset(value), tuple(value), value.lower()) changes which cells satisfy it (substring vs. element
    membership, hashability of the cell) although the predicate still reads `v in value`."""
    n = 0
    for name in SELECTORS:
        fn = ctx.project.modules['petl.transform.selects'].functions.get(name)
        if fn is None:
            continue
        refs = [p for p in fn.posparams[2:] if p not in ('complement',)] if name != 'rowlenselect' else [p for p in fn.posparams[1:] if p != 'complement']
        if not refs:
            continue
        n += 1
        bad = []
        for x in own_nodes(fn.node):
            tg = []
            if isinstance(x, ast.Assign):
                for t in x.targets:
                    tg.extend(y for y in ast.walk(t) if isinstance(y, ast.Name))
            elif isinstance(x, (ast.AugAssign, ast.AnnAssign)) and isinstance(x.target, ast.Name):
                tg.append(x.target)
            for y in tg:
                if y.id in refs:
                    v = getattr(x, 'value', None)
                    # Comparable(x) is transparent for an ordering predicate (the ordering is decided under C04) -- not for
                    # ==, !=, in, is: Comparable.__eq__ makes a list equal to a tuple
                    ordering = any(o in SELECTORS[name] for o in ('<', '>'))
                    if ordering and isinstance(x, ast.Assign) and isinstance(v, ast.Call) and isinstance(v.func, ast.Name) and \
                            v.func.id == 'Comparable' and len(v.args) == 1 and norm(v.args[0]) == y.id:
                        continue
                    bad.append((x, y.id))
        for x, r in bad:
            rep.violated('R13.12', fn, norm(x)[:70], 'the reference value `%s` is re-bound before the predicate reads it: the documented '
                         'predicate (%s) is about the value the caller passed' % (r, SELECTORS[name]), x)
        if not bad:
            rep.held('R13.12', fn, 'reference values %s not re-bound' % refs, '', fn.node)
    ctx.floor('selectors_with_reference_values', n, 12)


# ------------------------------------------------------------------------- R13.13
def r1313(ctx, rep):
    from . import c01
    from ..report import Report
    sub = Report('C01', ctx.tier, ctx.root)
    saved = ctx.report
    ctx.report = sub
    n = 0
    try:
        found = set()
        for v in ctx.views.real_views():
            if v.cls.module.name in ('petl.transform.selects', 'petl.transform.regex'):
                n += 1
                c01.r13(ctx, sub, v, found)
    finally:
        ctx.report = saved
    for o in sub.obligations:
        rep.add('R13.13', (o.module, o.qualname), o.construct, o.status, o.message, o.lineno, o.detail)
    if not sub.obligations:
        rep.held('R13.13', ('petl.transform.selects', '*'), 'no attribute of a select view is written by its iterators', '%d views' % n, None)
    if n < 4:
        raise AnalysisError('anchor vanished: only %d select views' % n)
