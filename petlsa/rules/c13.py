"""C13 -- selections return exactly the satisfying rows; complement is the exact rest."""
from __future__ import annotations

import ast
import copy
import re

from ..absint import parent_map, enclosing
from ..loader import norm, own_nodes, AnalysisError

PROP = 'C13'
CONTROL = 'c13'

# documented predicate of each selector over the cell value `v` (row for rowlenselect)
SELECTORS = {
    'selecteq': 'v == value', 'selectne': 'v != value',
    'selectlt': 'v < value', 'selectle': 'v <= value', 'selectgt': 'v > value', 'selectge': 'v >= value',
    'selectcontains': 'value in v', 'selectin': 'v in value', 'selectnotin': 'v not in value',
    'selectis': 'v is value', 'selectisnot': 'v is not value', 'selectisinstance': 'isinstance(v, value)',
    'selectnone': 'v is None', 'selectnotnone': 'v is not None',
    'selecttrue': 'bool(v)', 'selectfalse': 'not bool(v)',
    'selectrangeopenleft': 'minv <= v < maxv', 'selectrangeopenright': 'minv < v <= maxv',
    'selectrangeopen': 'minv <= v <= maxv', 'selectrangeclosed': 'minv < v < maxv',
    'rowlenselect': 'len(v) == n',
}
OPERATOR_FORMS = {
    'eq': '{a} == {b}', 'ne': '{a} != {b}', 'lt': '{a} < {b}', 'le': '{a} <= {b}', 'gt': '{a} > {b}',
    'ge': '{a} >= {b}', 'contains': '{b} in {a}', 'is_': '{a} is {b}', 'is_not': '{a} is not {b}',
}
NEG = {ast.Eq: ast.NotEq, ast.NotEq: ast.Eq, ast.Lt: ast.GtE, ast.GtE: ast.Lt, ast.Gt: ast.LtE, ast.LtE: ast.Gt,
       ast.In: ast.NotIn, ast.NotIn: ast.In, ast.Is: ast.IsNot, ast.IsNot: ast.Is}


class _Undecided(Exception):
    pass


class _Composed(Exception):
    pass


# ----------------------------------------------------------- predicate normal form
class _Norm(ast.NodeTransformer):
    def __init__(self, param):
        self.param = param

    def visit_Name(self, node):
        if node.id == self.param:
            return ast.copy_location(ast.Name(id='v', ctx=node.ctx), node)
        return node

    def visit_Call(self, node):
        self.generic_visit(node)
        # Comparable(x) is transparent for the predicate (ordering decided by C04)
        if isinstance(node.func, ast.Name) and node.func.id == 'Comparable' and len(node.args) == 1:
            return node.args[0]
        return node

    def visit_UnaryOp(self, node):
        self.generic_visit(node)
        if isinstance(node.op, ast.Not) and isinstance(node.operand, ast.Compare) and len(node.operand.ops) == 1:
            op = type(node.operand.ops[0])
            if op in NEG:
                c = copy.deepcopy(node.operand)
                c.ops = [NEG[op]()]
                return c
        return node


def predicate_text(fn, ctx):
    """Canonical text of the predicate a selector function applies to v."""
    rets = [n for n in own_nodes(fn.node) if isinstance(n, ast.Return) and isinstance(n.value, ast.Call)]
    if len(rets) != 1:
        raise _Undecided('expected one return of a select(...) call')
    call = rets[0].value
    callee = norm(call.func)
    if callee == 'selectop':
        if len(call.args) < 4:
            raise _Undecided('selectop call shape')
        valname = norm(call.args[2])
        op = call.args[3]
        opn = norm(op)
        if opn.startswith('operator.') and opn[9:] in OPERATOR_FORMS:
            return OPERATOR_FORMS[opn[9:]].format(a='v', b=valname), call
        if opn == 'isinstance':
            return 'isinstance(v, %s)' % valname, call
        if isinstance(op, ast.Lambda) and len(op.args.args) == 2:
            a, b = op.args.args[0].arg, op.args.args[1].arg
            body = copy.deepcopy(op.body)
            body = _Norm(a).visit(body)

            class R(ast.NodeTransformer):
                def visit_Name(self, node):
                    if node.id == b:
                        return ast.Name(id=valname, ctx=node.ctx)
                    return node
            body = R().visit(body)
            return norm(ast.fix_missing_locations(body)), call
        raise _Undecided('operator %s' % opn)
    if callee == 'select':
        lam = None
        for a in call.args:
            if isinstance(a, ast.Lambda):
                lam = a
            elif isinstance(a, ast.Name):
                # a local bound to a lambda
                vals = [b[1] for b in ctx.res.local_bindings(fn).get(a.id, []) if b[0] == 'assign']
                if len(vals) == 1 and isinstance(vals[0], ast.Lambda):
                    lam = vals[0]
        if lam is None or len(lam.args.args) != 1:
            raise _Undecided('no predicate lambda')
        body = _Norm(lam.args.args[0].arg).visit(copy.deepcopy(lam.body))
        return norm(ast.fix_missing_locations(body)), call
    if callee in SELECTORS and callee != fn.name:
        # delegation to another selector: fine when it selects from `table` itself with all arguments handed on;
        # a selection of a selection applies `complement` to the outer predicate only
        if not call.args or not isinstance(call.args[0], ast.Name):
            raise _Composed('%s(%s, ...)' % (callee, norm(call.args[0])[:40] if call.args else ''))
        pred = SELECTORS[callee]
        names = [norm(a) for a in call.args[2:]]
        for placeholder, actual in zip([w for w in ('value', 'minv', 'maxv', 'n') if w in pred], names):
            pred = re.sub(r'\\b%s\\b' % placeholder, actual, pred)
        return pred, call
    raise _Undecided('returns %s(...)' % callee)


# --------------------------------------------------------------------- XOR guard
def _bool_eval(e, P, C, pred_names):
    """Evaluate a guard over the predicate outcome P and the complement flag C."""
    if isinstance(e, ast.BoolOp):
        vals = [_bool_eval(v, P, C, pred_names) for v in e.values]
        return all(vals) if isinstance(e.op, ast.And) else any(vals)
    if isinstance(e, ast.UnaryOp) and isinstance(e.op, ast.Not):
        return not _bool_eval(e.operand, P, C, pred_names)
    if isinstance(e, ast.Compare) and len(e.ops) == 1 and isinstance(e.ops[0], (ast.Eq, ast.NotEq, ast.Is, ast.IsNot)):
        a = _bool_eval(e.left, P, C, pred_names)
        b = _bool_eval(e.comparators[0], P, C, pred_names)
        eq = isinstance(e.ops[0], (ast.Eq, ast.Is))
        return (a == b) if eq else (a != b)
    if isinstance(e, ast.Call) and isinstance(e.func, ast.Name) and e.func.id == 'bool' and len(e.args) == 1:
        return _bool_eval(e.args[0], P, C, pred_names)
    if isinstance(e, ast.Call) and isinstance(e.func, ast.Name) and e.func.id in pred_names:
        return P
    if isinstance(e, ast.Name) and e.id == 'complement':
        return C
    if isinstance(e, ast.Name) and e.id in pred_names:
        return P
    if isinstance(e, ast.Constant) and isinstance(e.value, bool):
        return e.value
    if isinstance(e, ast.IfExp):
        return _bool_eval(e.body, P, C, pred_names) if _bool_eval(e.test, P, C, pred_names) \
            else _bool_eval(e.orelse, P, C, pred_names)
    raise _Undecided('guard construct %s' % norm(e))


def _yield_conditions(fn, loop):
    """For each `yield` in the loop body: the list of (test, polarity) guards."""
    pm = parent_map(fn.node)
    out = []
    for n in ast.walk(loop):
        if isinstance(n, ast.Yield):
            conds = []
            for p, c in enclosing(pm, n, stop=loop):
                if isinstance(p, ast.If):
                    if any(c is b for b in p.body):
                        conds.append((p.test, True))
                    elif any(c is b for b in p.orelse):
                        conds.append((p.test, False))
                if p is loop:
                    break
            # loop-level guards: an enclosing `if` around the loop itself (itersearch)
            for p, c in enclosing(pm, loop, stop=fn.node):
                if isinstance(p, ast.If):
                    if any(c is b for b in p.body):
                        conds.append((p.test, True))
                    elif any(c is b for b in p.orelse):
                        conds.append((p.test, False))
            out.append((n, conds))
    return out


def check_xor(ctx, rep, fn, pred_names):
    loops = [n for n in own_nodes(fn.node) if isinstance(n, ast.For)]
    data_loops = [l for l in loops if any(isinstance(x, ast.Yield) for x in ast.walk(l))]
    if not data_loops:
        rep.violated('R13.1', fn, 'def ' + fn.name, 'no yielding data loop found', fn.node)
        return
    ys = []
    for l in data_loops:
        ys += _yield_conditions(fn, l)
    try:
        for P in (False, True):
            for C in (False, True):
                n_yield = 0
                for y, conds in ys:
                    if all(_bool_eval(t, P, C, pred_names) == pol for t, pol in conds):
                        n_yield += 1
                want = 1 if (P != C) else 0
                case = 'predicate=%s complement=%s' % (P, C)
                if n_yield == want:
                    rep.held('R13.1', fn, case, '%d row(s) yielded' % n_yield, fn.node)
                else:
                    rep.violated('R13.1', fn, case,
                                 'the row is yielded %d time(s) when the predicate is %s and complement is %s; a selection '
                                 'and its complement must partition the input (yield iff predicate XOR complement)'
                                 % (n_yield, P, C), ys[0][0] if ys else fn.node)
    except _Undecided as e:
        rep.undecided('R13.1', fn, 'XOR guard', str(e), fn.node)
    # yielded value is the row itself
    for y, conds in ys:
        v = y.value
        txt = norm(v) if v is not None else ''
        if txt not in ('tuple(row)', 'row'):
            rep.violated('R13.1', fn, 'yield ' + txt, 'a selection must deliver the row unchanged', y)


def run(ctx):
    rep = ctx.report
    from .common import check_record_leaks as _recleaks
    rep.rule('R13.6', 'a Record built for a user callable never leaves the operator: output rows are plain tuples')
    ctx.floor('record_building_functions', _recleaks(ctx, rep, 'R13.6', ctx.functions(['petl.transform.selects'])), 2)
    rep.explanation = (
        'Decides that every selector applies exactly its documented predicate and that complement is the exact Boolean '
        'complement: (R13.1) the guard of the yield in iterfieldselect / iterrowselect / itersearch is evaluated for all '
        'four valuations of (predicate, complement) and must be XOR with exactly one yield of the unchanged row; a cell '
        'missing from a short row is read as `missing`; (R13.2) the predicate of each of the 21 selector functions is '
        'normalised (operator.X(a, b) == the comparison form, lambda parameter renamed, Comparable() transparent) and '
        'compared with its documented predicate, and complement / missing are forwarded unchanged; (R13.3) '
        'searchcomplement, biselect and facet are built from the same constructor with complement True/False resp. '
        'selecteq per value; (R13.4) rowslice/head/tail/skip hand the user\'s arguments to itertools.islice unchanged. '
        'Together with C04-R4.2 (>= is not <) this gives lt/ge etc. complementarity for all values.')
    rep.rule('R13.1', 'yield iff predicate XOR complement; exactly one yield of the unchanged row; missing cell -> `missing`')
    rep.rule('R13.2', 'each selector applies its documented predicate and forwards complement/missing unchanged')
    rep.rule('R13.3', 'complement siblings: searchcomplement / biselect / facet')
    rep.rule('R13.7', 'search applies the pattern to the text of one cell at a time')
    r137(ctx, rep)
    rep.rule('R13.4', 'positional selection = itertools.islice with the user\'s arguments')
    rep.assumptions = ['Comparable defines all six operators, so mixed raw/wrapped comparisons land in its ladder (C04)',
                       'user predicates are pure']
    rep.trusted = ['documented predicate table SELECTORS (from the docstrings)']
    mod = ctx.project.modules.get('petl.transform.selects')
    if mod is None:
        raise AnalysisError('anchor vanished: petl.transform.selects')
    # R13.1
    check_xor(ctx, rep, ctx.project.need_fn('petl.transform.selects:iterfieldselect'), {'where'})
    check_xor(ctx, rep, ctx.project.need_fn('petl.transform.selects:iterrowselect'), {'where'})
    check_xor(ctx, rep, ctx.project.need_fn('petl.transform.regex:itersearch'), {'test'})
    cm = ctx.project.modules.get('petl._controls.' + CONTROL)
    if cm is not None:
        for q, fn in cm.functions.items():
            if q.startswith(('bad_xor', 'good_xor')):
                check_xor(ctx, rep, fn, {'where'})
    _missing_cell(ctx, rep, ctx.project.need_fn('petl.transform.selects:iterfieldselect'))
    # R13.2
    n = 0
    targets = []
    for name, want in SELECTORS.items():
        fn = mod.functions.get(name)
        if fn is None:
            raise AnalysisError('anchor vanished: selector %s' % name)
        targets.append((fn, want))
    if cm is not None:
        for q, fn in cm.functions.items():
            base = q.split('_', 1)[1] if '_' in q else q
            if q.startswith(('bad_', 'good_')) and base in SELECTORS:
                targets.append((fn, SELECTORS[base]))
    for fn, want in targets:
        real = not fn.module.name.startswith('petl._controls')
        if real:
            n += 1
        try:
            got, call = predicate_text(fn, ctx)
        except _Composed as e:
            rep.violated('R13.2', fn, 'predicate',
                         '%s is built as a selection of a selection (%s): `complement` then negates only the outer '
                         'predicate, so the selection and its complement no longer partition the input' % (fn.name, e), fn.node)
            continue
        except _Undecided as e:
            rep.undecided('R13.2', fn, 'predicate', str(e), fn.node)
            continue
        if got == want:
            rep.held('R13.2', fn, 'predicate', got, fn.node)
        else:
            rep.violated('R13.2', fn, 'predicate',
                         '%s applies `%s`, its documented predicate is `%s`' % (fn.name, got, want), call)
        _forwarding(rep, fn, call, ('complement',))
    ctx.floor('selectors', n, 21)
    # select(): both views receive missing and complement
    sel = ctx.project.need_fn('petl.transform.selects:select')
    for node in own_nodes(sel.node):
        if isinstance(node, ast.Call) and norm(node.func) in ('RowSelectView', 'FieldSelectView'):
            _forwarding(rep, sel, node, ('complement', 'missing'))
    sop = ctx.project.need_fn('petl.transform.selects:selectop')
    for node in own_nodes(sop.node):
        if isinstance(node, ast.Call) and norm(node.func) == 'select':
            _forwarding(rep, sop, node, ('complement',))
    r133(ctx, rep)
    r134(ctx, rep)
    from .plumbing import check_plumbing
    rep.rule('R13.5', 'view -> iterator plumbing of the selections: self.X reaches the parameter named X')
    ctx.floor('plumbing_sites', check_plumbing(ctx, rep, 'R13.5', ['petl.transform.selects']), 10)


def _forwarding(rep, fn, call, names):
    for nm in names:
        ok = False
        for k in call.keywords:
            if k.arg == nm and isinstance(k.value, ast.Name) and k.value.id == nm:
                ok = True
            if k.arg is None:
                ok = True
        if ok:
            rep.held('R13.2', fn, '%s(..., %s=%s)' % (norm(call.func), nm, nm), 'forwarded', call)
        else:
            rep.violated('R13.2', fn, '%s(..., %s=%s)' % (norm(call.func), nm, nm),
                         '`%s` is not forwarded unchanged to %s: the selection silently uses the default'
                         % (nm, norm(call.func)), call)


def _missing_cell(ctx, rep, fn):
    ok = False
    for n in own_nodes(fn.node):
        if isinstance(n, ast.Try):
            for h in n.handlers:
                if h.type is not None and 'IndexError' in norm(h.type):
                    for s in h.body:
                        if isinstance(s, ast.Assign) and norm(s.value) == 'missing':
                            ok = True
    if ok:
        rep.held('R13.1', fn, 'missing cell', 'IndexError -> v = missing', fn.node)
    else:
        rep.violated('R13.1', fn, 'missing cell',
                     'a cell missing from a short row is no longer read as `missing` before the predicate is applied', fn.node)


def r133(ctx, rep):
    sc = ctx.project.need_fn('petl.transform.regex:searchcomplement')
    s = ctx.project.need_fn('petl.transform.regex:search')

    def ctor_call(fn):
        for n in own_nodes(fn.node):
            if isinstance(n, ast.Return) and isinstance(n.value, ast.Call):
                return n.value
        return None
    a, b = ctor_call(s), ctor_call(sc)
    if a is None or b is None:
        rep.undecided('R13.3', sc, 'searchcomplement', 'no constructor call', sc.node)
    else:
        # either the same constructor, or a delegation to search() itself
        same = norm(a.func) == norm(b.func) or (
            norm(b.func) == 'search' and b.args and norm(b.args[0]) == 'table' and
            any(isinstance(x, ast.Starred) for x in b.args) and any(k.arg is None for k in b.keywords))
        comp = [k for k in b.keywords if k.arg == 'complement']
        ok = same and comp and isinstance(comp[0].value, ast.Constant) and comp[0].value.value is True and \
            not any(k.arg == 'complement' for k in a.keywords)
        if ok:
            rep.held('R13.3', sc, 'searchcomplement', 'same view as search with complement=True', sc.node)
        else:
            rep.violated('R13.3', sc, 'searchcomplement',
                         'searchcomplement must construct the same view as search with complement=True '
                         '(search: %s; searchcomplement: %s)' % (norm(a), norm(b)), b)
    bi = ctx.project.need_fn('petl.transform.selects:biselect')
    # two select(table, *args, **kwargs) calls, the complement entry set to False before the first and True before the second
    seq = []
    for st in bi.node.body:
        if isinstance(st, ast.Assign) and isinstance(st.targets[0], ast.Subscript) and \
                norm(st.targets[0]) == "kwargs['complement']" and isinstance(st.value, ast.Constant):
            seq.append(('set', st.value.value))
        elif isinstance(st, ast.Assign) and isinstance(st.value, ast.Call) and norm(st.value.func) == 'select':
            seq.append(('select', norm(st.value)))
    want = [('set', False), ('select', 'select(table, *args, **kwargs)'), ('set', True),
            ('select', 'select(table, *args, **kwargs)')]
    if seq == want:
        rep.held('R13.3', bi, 'biselect', 'select(...complement=False), select(...complement=True) on the same arguments', bi.node)
    else:
        rep.violated('R13.3', bi, 'biselect', 'expected %s, found %s' % (want, seq), bi.node)
    fc = ctx.project.need_fn('petl.transform.selects:facet')
    calls = [n for n in own_nodes(fc.node) if isinstance(n, ast.Call) and norm(n.func) == 'selecteq']
    if len(calls) == 1 and len(calls[0].args) == 3 and norm(calls[0].args[0]) == 'table' and norm(calls[0].args[1]) == 'key':
        rep.held('R13.3', fc, 'facet', 'one selecteq(table, key, v) per distinct value', fc.node)
    else:
        rep.violated('R13.3', fc, 'facet', 'facet must build selecteq(table, key, v) for each distinct value', fc.node)


def r134(ctx, rep):
    rs = ctx.project.need_fn('petl.transform.basics:iterrowslice')
    calls = [n for n in own_nodes(rs.node) if isinstance(n, ast.Call) and norm(n.func) in ('islice', 'itertools.islice')]
    ok = len(calls) == 1 and len(calls[0].args) == 2 and norm(calls[0].args[0]) == 'it' and \
        isinstance(calls[0].args[1], ast.Starred) and norm(calls[0].args[1].value) == 'sliceargs'
    if ok:
        rep.held('R13.4', rs, 'islice(it, *sliceargs)', 'the data iterator is sliced with the user\'s arguments', rs.node)
    else:
        rep.violated('R13.4', rs, 'islice(it, *sliceargs)',
                     'rowslice must apply itertools.islice(it, *sliceargs) to the data rows; found %s'
                     % [norm(c) for c in calls], rs.node)
    rv = ctx.project.need_fn('petl.transform.basics:RowSliceView.__init__')
    stores = [n for n in own_nodes(rv.node) if isinstance(n, ast.Assign) and any(norm(t) == 'self.sliceargs' for t in n.targets)]
    vals = sorted(norm(n.value) for n in stores)
    if vals and all(v in ('sliceargs', '(None,)') for v in vals) and 'sliceargs' in vals:
        rep.held('R13.4', rv, 'self.sliceargs', 'the user\'s slice arguments are stored unchanged (%s)' % vals, rv.node)
    else:
        rep.violated('R13.4', rv, 'self.sliceargs',
                     'the slice arguments are rewritten before they reach itertools.islice (%s): e.g. a stop of 0 or a step '
                     'are no longer interpreted as islice would' % vals, stores[0] if stores else rv.node)
    hd = ctx.project.need_fn('petl.transform.basics:head')
    calls = [n for n in own_nodes(hd.node) if isinstance(n, ast.Call) and norm(n.func) == 'rowslice']
    if len(calls) == 1 and [norm(a) for a in calls[0].args] == ['table', 'n'] and not calls[0].keywords:
        rep.held('R13.4', hd, 'rowslice(table, n)', '', hd.node)
    else:
        rep.violated('R13.4', hd, 'rowslice(table, n)', 'head(n) must be rowslice(table, n); found %s' % [norm(c) for c in calls], hd.node)
    sk = ctx.project.need_fn('petl.transform.headers:iterskip')
    calls = [n for n in own_nodes(sk.node) if isinstance(n, ast.Call) and norm(n.func) in ('islice', 'itertools.islice')]
    if len(calls) == 1 and [norm(a) for a in calls[0].args] == ['source', 'n', 'None']:
        rep.held('R13.4', sk, 'islice(source, n, None)', '', sk.node)
    else:
        rep.violated('R13.4', sk, 'islice(source, n, None)', 'skip(n) must be islice(source, n, None); found %s' % [norm(c) for c in calls], sk.node)
    tl = ctx.project.need_fn('petl.transform.basics:itertail')
    # bounded deque: popleft under len(cache) > n
    ok = False
    for n in own_nodes(tl.node):
        if isinstance(n, ast.If) and norm(n.test) in ('len(cache) > n',):
            if any(isinstance(x, ast.Call) and norm(x.func) == 'cache.popleft' for s in n.body for x in ast.walk(s)):
                ok = True
        if isinstance(n, ast.Call) and norm(n.func) in ('deque', 'collections.deque') and \
                any(k.arg == 'maxlen' and norm(k.value) == 'n' for k in n.keywords):
            ok = True
    if ok:
        rep.held('R13.4', tl, 'tail window', 'keeps the last n rows', tl.node)
    else:
        rep.violated('R13.4', tl, 'tail window', 'tail(n) must keep exactly the last n rows (deque bounded by n)', tl.node)


# ------------------------------------------------------------------------ R13.7
def r137(ctx, rep):
    """search(table, pattern[, field]) selects the rows in which the pattern
    matches *a value*: the compiled pattern is applied to the text of one cell
    at a time (any() over the cells).  Applied to several cells joined into one
    string, anchors (^ $ \\A \\Z) only see the first / last cell and classes
    that match the separator let a match span two cells."""
    fn = ctx.project.need_fn('petl.transform.regex:itersearch')
    progs = set()
    for x in own_nodes(fn.node):
        if isinstance(x, ast.Assign) and isinstance(x.value, ast.Call) and norm(x.value.func) in ('re.compile', 'compile'):
            for t in x.targets:
                if isinstance(t, ast.Name):
                    progs.add(t.id)
    if not progs:
        raise AnalysisError('anchor vanished: compiled pattern of itersearch')
    n = 0
    for x in ast.walk(fn.node):
        if not (isinstance(x, ast.Call) and isinstance(x.func, ast.Attribute) and isinstance(x.func.value, ast.Name)
                and x.func.value.id in progs and x.func.attr in ('search', 'match', 'fullmatch', 'findall', 'finditer')):
            continue
        n += 1
        c = norm(x)[:70]
        a = x.args[0] if x.args else None
        ok = False
        why = 'argument shape not recognised'
        if a is not None and isinstance(a, ast.Call) and norm(a.func) in ('text_type', 'str') and len(a.args) == 1:
            v = a.args[0]
            if isinstance(v, ast.Name):
                # a comprehension variable ranging over the cells
                comp = [g for p in ast.walk(fn.node) if isinstance(p, (ast.GeneratorExp, ast.ListComp))
                        for g in p.generators if isinstance(g.target, ast.Name) and g.target.id == v.id
                        and any(y is x for y in ast.walk(p))]
                ok = bool(comp)
            elif isinstance(v, ast.Subscript) and not isinstance(v.slice, ast.Slice):
                ok = True
        if a is not None and any(isinstance(y, ast.Attribute) and y.attr == 'join' for y in ast.walk(a)) or \
                (a is not None and any(isinstance(y, (ast.BinOp, ast.JoinedStr)) for y in ast.walk(a))):
            rep.violated('R13.7', fn, c,
                         'the pattern is applied to several cells combined into one string (`%s`): ^ and $ then only match '
                         'at the first / last cell and a match can span two cells, so rows move between search and '
                         'searchcomplement' % norm(a)[:60], x)
        elif ok:
            rep.held('R13.7', fn, c, 'applied to the text of one cell', x)
        else:
            rep.undecided('R13.7', fn, c, why, x)
    if n < 3:
        raise AnalysisError('anchor vanished: itersearch applies the pattern at %d sites' % n)
