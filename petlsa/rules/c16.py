"""C16 -- pass-through views are transparent; a consumed tee writes what to* writes."""
from __future__ import annotations

import ast

from ..effects import skeleton, diff, Effect
from ..loader import norm, own_nodes, AnalysisError

PROP = 'C16'
CONTROL = 'c16'

PASS_THROUGH = [
    'petl.io.csv_py3:TeeCSVView.__iter__', 'petl.io.pickle:TeePickleView.__iter__', 'petl.io.text:_iterteetext',
    'petl.io.html:TeeHTMLView.__iter__', 'petl.util.timing:ProgressViewBase.__iter__',
    'petl.util.timing:ClockView.__iter__', 'petl.util.materialise:CacheView.__iter__',
]
WRAP = 'petl.util.base:TableWrapper.__iter__'

# (tee iterator, writer, {writer parameter: value to bind for the to* variant})
PAIRS = [
    ('petl.io.csv_py3:TeeCSVView.__iter__', 'petl.io.csv_py3:_writecsv', {'mode': "'wb'"}),
    ('petl.io.pickle:TeePickleView.__iter__', 'petl.io.pickle:_writepickle', {'mode': "'wb'"}),
    ('petl.io.text:_iterteetext', 'petl.io.text:_writetext', {'mode': "'wb'"}),
    ('petl.io.html:TeeHTMLView.__iter__', 'petl.io.html:tohtml', {}),
]
# public wrapper -> the callable it must hand ALL of its named parameters to
WRAPPERS = [
    ('petl.io.csv:teecsv', 'teecsv_impl'), ('petl.io.csv:teetsv', 'teecsv'),
    ('petl.io.csv:tocsv', 'tocsv_impl'), ('petl.io.csv:totsv', 'tocsv'),
    ('petl.io.csv:appendcsv', 'appendcsv_impl'), ('petl.io.csv:appendtsv', 'appendcsv'),
    ('petl.io.pickle:teepickle', 'TeePickleView'), ('petl.io.text:teetext', 'TeeTextView'),
    ('petl.io.html:teehtml', 'TeeHTMLView'),
]
# tee function and the to* function whose defaults it must share
DEFAULT_SIBLINGS = [
    ('petl.io.csv:teecsv', 'petl.io.csv:tocsv'), ('petl.io.csv:teetsv', 'petl.io.csv:totsv'),
    ('petl.io.pickle:teepickle', 'petl.io.pickle:topickle'), ('petl.io.text:teetext', 'petl.io.text:totext'),
    ('petl.io.html:teehtml', 'petl.io.html:tohtml'),
]
# write-mode newline values that produce identical bytes on POSIX
POSIX_NEWLINE_EQ = {"newline=None", "newline=''", "newline='\\n'"}


def _add(a, b):
    return None if (a is None or b is None) else a + b


def _paths(body):
    """(cont, term): numbers of yields on the paths that fall out of the end of
    the statement list, and on those that leave it early (continue / break /
    return).  None in a set = cannot tell."""
    cont = {0}
    term = set()
    for s in body:
        if isinstance(s, ast.If):
            ca, ta = _paths(s.body)
            cb, tb = _paths(s.orelse)
            new_c, new_t = ca | cb, ta | tb
        elif isinstance(s, ast.Try):
            c1, t1 = _paths(s.body + s.orelse)
            new_c, new_t = set(c1), set(t1)
            for h in s.handlers:
                ch, th = _paths(h.body)
                new_c |= ch
                new_t |= th
            if s.finalbody:
                cf, tf = _paths(s.finalbody)
                new_c = {_add(a, b) for a in new_c for b in cf}
        elif isinstance(s, (ast.For, ast.While)):
            ci, ti = _paths(s.body)
            inner = ci | ti
            new_c, new_t = ({0} if inner == {0} else {None}), set()
        elif isinstance(s, ast.With):
            new_c, new_t = _paths(s.body)
        elif isinstance(s, (ast.Continue, ast.Break, ast.Return, ast.Raise)):
            term |= cont
            cont = set()
            break
        else:
            n = sum(1 for x in ast.walk(s) if isinstance(x, (ast.Yield, ast.YieldFrom)))
            new_c, new_t = {n}, set()
        term |= {_add(a, b) for a in cont for b in new_t}
        cont = {_add(a, b) for a in cont for b in new_c}
    return cont, term


def _path_yield_counts(body, leaving_ok=False):
    """Yields per pass through a loop body.  Paths that leave through
    return/break inside a StopIteration handler end the loop and are not passes."""
    cont, term = _paths(body)
    return cont | term


def _data_loops(fn):
    out = []
    for n in own_nodes(fn.node):
        if isinstance(n, (ast.For, ast.While)) and any(isinstance(x, ast.Yield) for b in n.body for x in ast.walk(b)):
            out.append(n)
    return out


def run(ctx):
    rep = ctx.report
    rep.explanation = (
        'Decides (R16.1) transparency of the nine pass-through iterators structurally: every path through the data loop '
        'yields exactly once, the yielded expression is the row variable itself (or tuple(row)), and the header is '
        'delivered once; (R16.2) tee == to: the ordered sink-effect skeleton (open mode, text wrapper arguments, guarded '
        'header/prologue/epilogue writes, per-row write with its normalised payload, flush, detach in finally) of each '
        'tee iterator equals that of the matching to* writer, the public tee*/to* wrappers forward every parameter they '
        'accept and share defaults with their sibling; (R16.3) the tee flushes before the generator ends; (R16.4) '
        'cache() marks its memo complete under the same room predicate that limits appending. Byte equality follows '
        'from doing the same writes in the same order with the same arguments; it is not computed.')
    rep.rule('R16.1', 'transparency: exactly one yield of the unchanged row per pulled row on every path; header once')
    rep.rule('R16.2', 'tee == to: equal sink-effect skeletons; wrappers forward all parameters; sibling defaults agree')
    rep.rule('R16.3', 'the tee flushes its wrapper after the data loop')
    rep.rule('R16.4', 'cache(): completeness predicate == room predicate')
    rep.assumptions = ['write-mode newline None / \'\' / \'\\n\' produce identical bytes on POSIX (platform note)',
                       'TextIOWrapper.detach() flushes']
    rep.trusted = ['skeleton extractor (effects.py)']
    ctx.attempt(r161, ctx, rep)
    ctx.attempt(r162, ctx, rep)
    ctx.attempt(r164, ctx, rep)
    rep.rule('R16.6', 'a tee view stores the options it is given as they are: what it writes is decided by the same arguments the to* function would get (no re-interpretation of protocol, encoding, write_header ... in the constructor)')
    ctx.attempt(r166, ctx, rep)
    rep.rule('R16.5', 'a pass through a tee view does not change the view: what the second pass (header(), look(), the real pass) writes is what the first wrote (C01 R1.3 for the Tee*View classes)')
    ctx.attempt(r165, ctx, rep)


# ------------------------------------------------------------------------ R16.1
def r161(ctx, rep):
    targets = [ctx.project.need_fn(fq) for fq in PASS_THROUGH]
    cm = ctx.project.modules.get('petl._controls.' + CONTROL)
    if cm is not None:
        targets += [f for q, f in cm.functions.items() if q.startswith(('bad_pass', 'good_pass'))]
    n = 0
    for fn in targets:
        real = not fn.module.name.startswith('petl._controls')
        if real:
            n += 1
        loops = _data_loops(fn)
        if not loops:
            rep.violated('R16.1', fn, 'def ' + fn.name, 'no yielding loop: rows are not passed through', fn.node)
            continue
        ok = True
        for lp in loops:
            counts = _path_yield_counts(_without_stop_exit(lp.body))
            if counts != {1}:
                if False:
                    pass
                else:
                    ok = False
                    rep.violated('R16.1', fn, norm(lp),
                                 'a pass through the loop yields %s time(s) depending on the path: rows are dropped or '
                                 'duplicated' % sorted(counts, key=lambda x: (x is None, x)), lp)
            var = _row_var(lp)
            # the name that holds the pulled row is not bound to anything else inside the pass
            if var is not None:
                pump = None
                if not isinstance(lp, ast.For):
                    for x in ast.walk(lp):
                        if isinstance(x, ast.Assign) and isinstance(x.value, ast.Call) and norm(x.value.func) == 'next' and \
                                isinstance(x.targets[0], ast.Name) and x.targets[0].id == var:
                            pump = x
                            break
                for b in lp.body:
                    for x in ast.walk(b):
                        if isinstance(x, ast.Name) and x.id == var and isinstance(x.ctx, (ast.Store, ast.Del)) and \
                                not (pump is not None and x is pump.targets[0]):
                            # `row = Record(row, hdr)` / `row = tuple(row)`: the same row in a wrapper that compares equal
                            # to it (what the views did before with `it = (Record(row, hdr) for row in it)`)
                            asg = [a for a in ast.walk(b) if isinstance(a, ast.Assign) and any(t is x for t in a.targets)]
                            if asg and isinstance(asg[0].value, ast.Call) and norm(asg[0].value.func) in ('Record', 'tuple') and \
                                    asg[0].value.args and norm(asg[0].value.args[0]) == var:
                                continue
                            ok = False
                            rep.violated('R16.1', fn, 're-binding of `%s`' % var,
                                         '`%s` holds the row this pass pulled and is yielded at the end of the pass, but it is '
                                         'assigned something else on the way: on that path the view hands on that value instead '
                                         'of the row' % var, x)
            for y in [x for b in lp.body for x in ast.walk(b) if isinstance(x, ast.Yield)]:
                t = norm(y.value) if y.value is not None else ''
                same = (var, 'tuple(%s)' % var)
                if var is not None and isinstance(y.value, ast.Call) and norm(y.value.func) == 'tuple' and y.value.args \
                        and isinstance(y.value.args[0], ast.GeneratorExp):
                    g = y.value.args[0]
                    if len(g.generators) == 1 and not g.generators[0].ifs and norm(g.generators[0].iter) == var and \
                            norm(g.elt) == norm(g.generators[0].target):
                        t = 'tuple(%s)' % var     # tuple(x for x in row) is tuple(row)
                if var is None or t not in same:
                    ok = False
                    rep.violated('R16.1', fn, 'yield ' + t,
                                 'the pass-through view yields `%s`, not the row it pulled (`%s`)' % (t, var), y)
        # header yield (tees read it separately)
        if ok:
            rep.held('R16.1', fn, 'def ' + fn.name, 'one unchanged row per pulled row', fn.node)
    wf = ctx.project.need_fn(WRAP)
    rets = [norm(r.value) for r in own_nodes(wf.node) if isinstance(r, ast.Return) and r.value is not None]
    if rets == ['iter(self.inner)']:
        rep.held('R16.1', wf, 'return iter(self.inner)', '', wf.node)
    else:
        rep.violated('R16.1', wf, 'return iter(self.inner)', 'wrap() must iterate the wrapped object itself; found %s' % rets, wf.node)
    ctx.floor('pass_through_iterators', n, 7)


def _row_var(lp):
    if isinstance(lp, ast.For):
        t = lp.target
        if isinstance(t, ast.Name):
            return t.id
        if isinstance(t, ast.Tuple) and len(t.elts) == 2 and isinstance(lp.iter, ast.Call) and \
                norm(lp.iter.func) == 'enumerate' and isinstance(t.elts[1], ast.Name):
            return t.elts[1].id
        return None
    # while-loop pump: row = next(it)
    for n in ast.walk(lp):
        if isinstance(n, ast.Assign) and isinstance(n.value, ast.Call) and norm(n.value.func) == 'next' \
                and isinstance(n.targets[0], ast.Name):
            return n.targets[0].id
    return None


def _without_stop_exit(body):
    """The loop body with `except StopIteration: return/break` handlers removed:
    that path is the end of the iteration, not a row being passed through."""
    import copy
    out = []
    for s in body:
        if isinstance(s, ast.Try):
            s2 = copy.copy(s)
            s2.handlers = [h for h in s.handlers if not (
                h.type is not None and norm(h.type) == 'StopIteration' and h.body and
                isinstance(h.body[-1], (ast.Return, ast.Break)))]
            s2.body = _without_stop_exit(s.body)
            out.append(s2)
        else:
            out.append(s)
    return out


def _leaves_only_on_stop(lp):
    for n in ast.walk(lp):
        if isinstance(n, (ast.Return, ast.Break)):
            return True
    return False


# ------------------------------------------------------------------------ R16.2
def _drop_redundant_flush(effects):
    """flush() is redundant when the same sink is detached in a finally
    (TextIOWrapper.detach() flushes): compare skeletons without it."""
    if any(e.kind == 'detach' and e.region == 'finally' for e in effects):
        return [e for e in effects if e.kind != 'flush']
    return effects


def _norm_key(e, bind):
    kind, payload, guards, region = e.key()
    if kind == 'open':
        payload = bind.get(payload, payload)
    if kind == 'wrap':
        parts = payload.split(', ')
        parts = ['newline=<posix-eq>' if p in POSIX_NEWLINE_EQ else p for p in parts]
        payload = ', '.join(parts)
    return (kind, payload, guards, region)


def _local_flags(fn):
    out = set()
    for n in own_nodes(fn.node):
        if isinstance(n, ast.Assign) and isinstance(n.value, ast.Constant) and isinstance(n.value.value, bool):
            for t in n.targets:
                if isinstance(t, ast.Name):
                    out.add(t.id)
    return out


def _restructured(tee, to, kt, kw):
    """same multiset of (kind, payload with HDR and ROW unified), and at least one side steers its sink effects with a
    local boolean flag or has no separate header phase"""
    import re

    def atoms(ks):
        return sorted((k, re.sub(r'\bHDR\b', 'ROW', p)) for k, p, g, r in ks)

    def dedup(xs):
        out = []
        for x in xs:
            if x not in out:
                out.append(x)
        return out
    if dedup(atoms(kt)) != dedup(atoms(kw)):
        return False
    for fn, ks in ((tee, kt), (to, kw)):
        flags = _local_flags(fn)
        if any(re.search(r'\b%s\b' % re.escape(f), ' '.join(g)) for k, p, g, r in ks for f in flags):
            return True
        if not any('HDR' in p for k, p, g, r in ks) and any('ROW' in p for k, p, g, r in ks):
            return True
    return False


def r162(ctx, rep):
    for tee_fq, to_fq, bind in PAIRS:
        tee = ctx.project.need_fn(tee_fq)
        to = ctx.project.need_fn(to_fq)
        st = skeleton(tee)
        sw = skeleton(to)
        if len(st) < 3 and len(sw) < 3:
            raise AnalysisError('anchor vanished: sink effects of %s / %s not recognised (%d / %d effects)'
                                % (tee_fq, to_fq, len(st), len(sw)))
        # (when only one side is recognisable the siblings have diverged: reported as a difference below)
        kt = [_norm_key(e, {}) for e in _drop_redundant_flush(st)]
        kw = [_norm_key(e, bind) for e in _drop_redundant_flush(sw)]
        pair = '%s == %s' % (tee.qualname, to.qualname)
        if kt == kw:
            rep.held('R16.2', tee, pair, ' . '.join(repr(e) for e in st), tee.node)
            raw_t = [e.key() for e in st if e.kind == 'wrap']
            raw_w = [e.key() for e in sw if e.kind == 'wrap']
            if raw_t != raw_w:
                rep.note('platform note: %s and %s pass different but POSIX-equivalent newline arguments (%s vs %s)'
                         % (tee.qualname, to.qualname, raw_t, raw_w))
        elif _restructured(tee, to, kt, kw):
            rep.undecided('R16.2', tee, pair,
                          'tee and writer perform the same kinds of sink effects with the same payloads, but one of them was '
                          'restructured (header handled inside the data loop under a local flag / rows chained): the '
                          'guard and order comparison does not apply to that shape', tee.node)
        else:
            import difflib
            a = ['%s(%s)%s%s' % (k, p, (' if ' + ' and '.join(g)) if g else '', ('@' + r) if r else '') for k, p, g, r in kt]
            b = ['%s(%s)%s%s' % (k, p, (' if ' + ' and '.join(g)) if g else '', ('@' + r) if r else '') for k, p, g, r in kw]
            sm = difflib.SequenceMatcher(a=a, b=b, autojunk=False)
            for tag, i1, i2, j1, j2 in sm.get_opcodes():
                if tag == 'equal':
                    continue
                node = st[i1].node if i1 < len(st) else tee.node
                rep.violated('R16.2', tee, '%s: %s' % (pair, ' | '.join(a[i1:i2]) or '(nothing)'),
                             'the tee does `%s` where the to* writer does `%s`: the bytes in the target differ once the tee '
                             'has been consumed' % (' ; '.join(a[i1:i2]) or 'nothing', ' ; '.join(b[j1:j2]) or 'nothing'), node)
        # R16.3
        loop_idx = [i for i, e in enumerate(st) if e.region == 'loop']
        flushes = [i for i, e in enumerate(st) if e.kind in ('flush', 'detach') and e.region != 'loop']
        has_wrap = any(e.kind == 'wrap' for e in st)
        if has_wrap:
            if loop_idx and any(i > max(loop_idx) for i in flushes):
                rep.held('R16.3', tee, 'flush after loop', '', tee.node)
            else:
                rep.violated('R16.3', tee, 'flush after loop', 'buffered text never reaches the target: no flush()/detach() '
                             'after the data loop', tee.node)
    # wrappers forward everything they accept
    for wfq, callee in WRAPPERS:
        fn = ctx.project.need_fn(wfq)
        calls = [n for n in own_nodes(fn.node) if isinstance(n, ast.Call) and norm(n.func) == callee]
        if len(calls) != 1 and fn.kwarg:
            # the hop may go straight to the implementation: the one call that gets **csvargs
            calls = [n for n in own_nodes(fn.node) if isinstance(n, ast.Call) and
                     any(k.arg is None and isinstance(k.value, ast.Name) and k.value.id == fn.kwarg for k in n.keywords)]
        if len(calls) != 1:
            rep.violated('R16.2', fn, callee + '(...)', 'expected exactly one delegation to %s' % callee, fn.node)
            continue
        _all_forwarded(rep, fn, calls[0])
    # sibling defaults
    for a, b in DEFAULT_SIBLINGS:
        fa = ctx.project.need_fn(a)
        fb = ctx.project.need_fn(b)
        for p in fa.params:
            if p in fb.params and p in fa.defaults and p in fb.defaults:
                da, db = norm(fa.defaults[p]), norm(fb.defaults[p])
                if da == db:
                    rep.held('R16.2', fa, 'default %s' % p, da, fa.node)
                else:
                    rep.violated('R16.2', fa, 'default %s' % p,
                                 '%s defaults %s=%s but %s defaults it to %s: with the argument omitted the tee writes '
                                 'something else' % (fa.name, p, da, fb.name, db), fa.node)
        # csv dialect defaults
        if fa.module.name == 'petl.io.csv' and fa.kwarg and fb.kwarg:
            # the dialect that reaches the implementation when the caller gave none / gave one, whatever the spelling
            from .c15 import _dialect_flow, _NoFlow
            try:
                sa = [sorted({d for d, _ in _dialect_flow(ctx, fa.module, fa, st0)}) for st0 in ('ABSENT', 'USER')]
                sb = [sorted({d for d, _ in _dialect_flow(ctx, fb.module, fb, st0)}) for st0 in ('ABSENT', 'USER')]
            except _NoFlow as e:
                rep.undecided('R16.2', fa, 'dialect default', str(e), fa.node)
                continue
            if sa == sb and sa[0]:
                rep.held('R16.2', fa, 'dialect default', 'dialect %s when omitted, the caller\'s otherwise' % ', '.join(sa[0]), fa.node)
            else:
                rep.violated('R16.2', fa, 'dialect default', '%s reaches its implementation with dialect %s (omitted) / %s (given), '
                             '%s with %s / %s' % (fa.name, sa[0], sa[1], fb.name, sb[0], sb[1]), fa.node)


def _all_forwarded(rep, fn, call):
    passed = {}
    spread = False
    for k in call.keywords:
        if k.arg is None:
            spread = True
        else:
            passed[k.arg] = k.value
    pos = [a for a in call.args if isinstance(a, ast.Name)]
    # locals bound once: `sink = write_source_from_arg(source, mode)` carries `source`
    single = {}
    for n in own_nodes(fn.node):
        if isinstance(n, ast.Assign) and len(n.targets) == 1 and isinstance(n.targets[0], ast.Name):
            single.setdefault(n.targets[0].id, []).append(n.value)

    def carries(e, p, depth=0):
        if isinstance(e, ast.Name):
            if e.id == p:
                return True
            vals = single.get(e.id, [])
            if len(vals) == 1 and depth < 3 and e.id not in fn.params:
                return carries(vals[0], p, depth + 1)
            return False
        if isinstance(e, ast.Call) and depth < 3:
            # a resolver applied to the argument (write_source_from_arg(source, ...)) hands the argument on
            return any(carries(a, p, depth + 1) for a in e.args[:1])
        return False
    for p in fn.params:
        ok = (p in passed and carries(passed[p], p)) or any(a.id == p for a in pos)
        c = '%s(..., %s=%s)' % (norm(call.func), p, p)
        if ok:
            rep.held('R16.2', fn, c, 'forwarded', call)
        else:
            rep.violated('R16.2', fn, c,
                         '%s accepts `%s` but does not hand it on to %s: the argument is silently ignored'
                         % (fn.name, p, norm(call.func)), call)


# ------------------------------------------------------------------------ R16.4
def r164(ctx, rep):
    from .common import cacheview_flag_truthful, cacheview_flag_reset
    ci, bad = cacheview_flag_reset(ctx)
    for f2, node in bad:
        rep.violated('R16.4', f2, norm(node)[:60],
                     '%s replaces / empties the memo but leaves cachecomplete as it is: after a complete pass the flag stays '
                     'raised, every later pass is served from the emptied memo and yields nothing' % f2.name, node)
    if not bad:
        rep.held('R16.4', (ci.module.name, ci.name), 'memo and flag are reset together', '', ci.node)
    from .common import cacheview_flag_on_exhaustion
    fn2, why = cacheview_flag_on_exhaustion(ctx)
    if why is None:
        rep.held('R16.4', fn2, 'complete only on exhaustion', 'the flag is raised after the loop over the inner table ended normally', fn2.node)
    else:
        rep.violated('R16.4', fn2, 'complete only on exhaustion', why, fn2.node)
    fn, cex = cacheview_flag_truthful(ctx)
    if cex is None:
        rep.held('R16.4', fn, 'completeness == room', 'complete implies room on the grid n in {None,0,1,2,3} x len(cache) in 0..4', fn.node)
    else:
        rep.violated('R16.4', fn, 'completeness == room',
                     cex + ': a full pass with a full memo marks it complete and later passes lose the remaining rows',
                     fn.node)


# ------------------------------------------------------------------------ R16.5
def r165(ctx, rep):
    from . import c01
    from ..report import Report
    sub = Report('C01', ctx.tier, ctx.root)
    saved = ctx.report
    ctx.report = sub
    n = 0
    try:
        found = set()
        for v in ctx.views.real_views():
            if v.cls.name.startswith('Tee') and v.cls.module.name.startswith('petl.io'):
                n += 1
                c01.r13(ctx, sub, v, found)
            elif v.cls.fq == 'petl.util.materialise:CacheView':
                # cache(): the memo is shared by all iterators; only the iterator that is at the end of it may extend it
                c01.r13(ctx, sub, v, found)
    finally:
        ctx.report = saved
    for o in sub.obligations:
        rep.add('R16.5', (o.module, o.qualname), o.construct, o.status, o.message, o.lineno, o.detail)
    if n < 4:
        raise AnalysisError('anchor vanished: only %d Tee*View classes' % n)
    rep.held('R16.5', ('petl.io', 'Tee*View'), 'view state', '%d tee views: no iterator-reachable code writes view state' % n, None)


# ------------------------------------------------------------------------- R16.6
def r166(ctx, rep):
    n = 0
    for v in ctx.views.real_views():
        if not v.cls.name.startswith('Tee') or not v.cls.module.name.startswith('petl.io'):
            continue
        init = v.cls.methods.get('__init__')
        if init is None:
            continue
        for x in own_nodes(init.node):
            if not (isinstance(x, ast.Assign) and len(x.targets) == 1):
                continue
            t = norm(x.targets[0])
            if not t.startswith('self.') or t[5:] not in init.params:
                continue
            p = t[5:]
            n += 1
            if norm(x.value) == p:
                rep.held('R16.6', init, 'self.%s = %s' % (p, p), '', x)
            elif any(isinstance(y, ast.Name) and y.id == p for y in ast.walk(x.value)):
                rep.violated('R16.6', init, norm(x)[:70], 'the tee view stores `%s` re-interpreted (%s) while the to* function of '
                             'the format passes its argument through: for some values of `%s` the tee target is no longer '
                             'byte-identical to what the to* function writes' % (p, norm(x.value)[:50], p), x)
            else:
                rep.violated('R16.6', init, norm(x)[:70], 'the tee view stores something else than the caller\'s `%s`' % p, x)
    ctx.floor('tee_option_stores', n, 15)
