"""C11 -- execution-strategy arguments never change results."""
from __future__ import annotations

import ast

from ..dtable import table as dtable, Unsupported, collect_atoms
from ..loader import norm, own_nodes, AnalysisError
from ..tables import tableinfo

PROP = 'C11'
CONTROL = 'c11'

STRAT = ('buffersize', 'tempdir', 'cache')
DEFAULTS = {'buffersize': None, 'tempdir': None, 'cache': True, 'presorted': False}
SORT_FQ = ('petl.transform.sorts:sort', 'petl.transform.sorts:SortView.__init__')


def _callee_fns(ctx, fn, call):
    out = []
    for r in ctx.res.resolve_call(fn, call):
        if r.kind == 'func':
            bound = r.bound
            out.append((r.target, bound))
        elif r.kind == 'class':
            g = ctx.res.lookup_method(r.target, '__init__')
            if g is not None:
                out.append((g, True))
    return out


def effective_kw(ctx, g, depth=0):
    """Keyword names a callable accepts: its named parameters, plus -- when it
    has **kwargs -- the names it reads from them and the names accepted by the
    callables it spreads them into (cut/cat/stack/annex -> their views)."""
    out = set(g.params)
    if not g.kwarg or depth > 2:
        return out
    kw = g.kwarg
    for n in own_nodes(g.node):
        if isinstance(n, ast.Call):
            if isinstance(n.func, ast.Attribute) and isinstance(n.func.value, ast.Name) and n.func.value.id == kw and \
                    n.func.attr in ('get', 'pop', 'setdefault') and n.args and isinstance(n.args[0], ast.Constant):
                out.add(n.args[0].value)
            if any(k.arg is None and isinstance(k.value, ast.Name) and k.value.id == kw for k in n.keywords):
                for h, b in _callee_fns(ctx, g, n):
                    out |= effective_kw(ctx, h, depth + 1)
        elif isinstance(n, ast.Subscript) and isinstance(n.value, ast.Name) and n.value.id == kw and \
                isinstance(n.slice, ast.Constant):
            out.add(n.slice.value)
    return out


def _local_dict(fn, name):
    """keys -> value nodes of a local that is bound exactly once, to dict(k=v, ...) or {'k': v, ...}
    and never updated; None when it is anything else"""
    if fn is None:
        return None
    binds = [n for n in own_nodes(fn.node) if isinstance(n, (ast.Assign, ast.AugAssign, ast.AnnAssign)) and
             any(isinstance(t, ast.Name) and t.id == name
                 for t in (n.targets if isinstance(n, ast.Assign) else [n.target]))]
    if len(binds) != 1 or not isinstance(binds[0], ast.Assign):
        return None
    for n in own_nodes(fn.node):
        if isinstance(n, ast.Subscript) and isinstance(n.value, ast.Name) and n.value.id == name and \
                isinstance(n.ctx, (ast.Store, ast.Del)):
            return None
        if isinstance(n, ast.Call) and isinstance(n.func, ast.Attribute) and isinstance(n.func.value, ast.Name) and \
                n.func.value.id == name and n.func.attr in ('update', 'pop', 'setdefault', 'clear', 'popitem'):
            return None
    v = binds[0].value
    if isinstance(v, ast.Call) and isinstance(v.func, ast.Name) and v.func.id == 'dict' and not v.args and \
            all(k.arg is not None for k in v.keywords):
        return {k.arg: k.value for k in v.keywords}
    if isinstance(v, ast.Dict) and all(isinstance(k, ast.Constant) and isinstance(k.value, str) for k in v.keys):
        return {k.value: val for k, val in zip(v.keys, v.values)}
    return None


def _literal_dict(v):
    if isinstance(v, ast.Call) and isinstance(v.func, ast.Name) and v.func.id == 'dict' and not v.args and \
            all(k.arg is not None for k in v.keywords):
        return {k.arg: k.value for k in v.keywords}
    if isinstance(v, ast.Dict) and all(isinstance(k, ast.Constant) and isinstance(k.value, str) for k in v.keys):
        return {k.value: val for k, val in zip(v.keys, v.values)}
    return None


def _passed(g, bound, call, name, fn=None):
    """The argument expression passed for parameter `name` of g:
    ('kw'|'pos', node) | ('spread', None) | None.  With `fn` (the caller) a
    `**local` whose keys are known statically is looked through."""
    for k in call.keywords:
        if k.arg == name:
            return ('kw', k.value)
    opaque_spread = False
    for k in call.keywords:
        if k.arg is None:
            d = _local_dict(fn, k.value.id) if isinstance(k.value, ast.Name) else _literal_dict(k.value)
            if d is None:
                opaque_spread = True
            elif name in d:
                return ('kw', d[name])
    params = list(g.posparams)
    if bound and params:
        params = params[1:]
    if name in params:
        i = params.index(name)
        pos = [a for a in call.args]
        if any(isinstance(a, ast.Starred) for a in pos[:i + 1]):
            return ('spread', None)
        if i < len(pos):
            return ('pos', pos[i])
    if opaque_spread:
        return ('spread', None)
    return None


def _is_true(node):
    return isinstance(node, ast.Constant) and node.value is True


def run(ctx):
    rep = ctx.report
    rep.explanation = (
        'Decides that the execution-strategy arguments can only select a strategy: (R11.1) every call, inside a '
        'callable that accepts buffersize/tempdir/cache, of a petl callable that also accepts them forwards the '
        'caller\'s own argument unchanged (unless a literal presorted=True means no sort happens in the callee); '
        '(R11.2) their defaults are the single documented ones and only SortView.__init__ resolves None to '
        'config.sort_buffersize; (R11.3) in every sort-backed view constructor presorted=True skips every sort, '
        'presorted=False sorts each table by the operator\'s own key parameter, `presorted` is forwarded only '
        'together with the caller\'s own table, and a literal presorted=True is justified by a preceding sort; '
        '(R11.4) the decision table of SortView.__iter__ serves a cache only when cache is true and re-sorts '
        'otherwise, caches are published only under `if self.cache`, and the hash joins rebuild their lookup '
        'unless cache is true; (R11.5) the strategy names are used for nothing else. Together with C05 (sort '
        'itself is strategy independent) this is the property; no output is computed.')
    rep.rule('R11.1', 'strategy arguments are forwarded unchanged at every call of a callable that accepts them')
    rep.rule('R11.2', 'defaults: buffersize=None, tempdir=None, cache=True, presorted=False; None -> config.sort_buffersize only in SortView.__init__')
    rep.rule('R11.3', 'presorted=True skips every sort; otherwise each table is sorted by the operator\'s own key; presorted travels only with the caller\'s own table')
    rep.rule('R11.4', 'cache decision tables: SortView.__iter__ / _iternocache / hash-join __iter__')
    rep.rule('R11.5', 'strategy arguments are only passed through or used in those decisions')
    rep.assumptions = ['sort itself is strategy independent (C05)', 'callee resolution']
    rep.trusted = ['resolver', 'decision-table extractor (dtable.py)']
    ctx.attempt(r111, ctx, rep)
    ctx.attempt(r112, ctx, rep)
    ctx.attempt(r113, ctx, rep)
    ctx.attempt(r114, ctx, rep)
    rep.rule('R11.6', 'the sort is the same function of its input for every buffer size: exhaustion test, run / merge agreement and stable merge (C05 R5.1-R5.3 imported)')
    ctx.attempt(r116, ctx, rep)
    from .common import check_raw_row_equalities as _rawreq
    rep.rule('R11.8', 'rows of two inputs are brought to one sequence type before they are compared with ==: presorted=True hands the merge the rows as the sources deliver them, the sorted path hands it tuples')
    ctx.attempt(_rawreq, ctx, rep, 'R11.8', ctx.functions(['petl.transform.setops', 'petl.transform.joins', 'petl.transform.dedup',
                                                           'petl.transform.reductions']))
    rep.rule('R11.7', 'rows that went through a spilled sort are copies (pickle): no operator compares a cell with a caller-supplied value by identity (C12 R12.11 imported)')
    ctx.attempt(r117, ctx, rep)


def r116(ctx, rep):
    from . import c05
    from ..report import Report
    sub = Report('C05', ctx.tier, ctx.root)
    saved = ctx.report
    ctx.report = sub
    try:
        sv = ctx.project.need_class('petl.transform.sorts:SortView')
        nc = ctx.project.need_fn('petl.transform.sorts:SortView._iternocache')
        c05.r51(ctx, sub, nc)
        c05.r52(ctx, sub, sv, nc)
        c05.r53(ctx, sub)
        c05.r514(ctx, sub)
        # the cache of chunk files is published only when it is complete (C18 R18.6 / C05 R5.11): otherwise a pass that
        # failed midway leaves a partial cache, and what later passes yield depends on cache and buffersize
        from . import c18
        sub18 = Report('C18', ctx.tier, ctx.root)
        c18._chunk_class(ctx, sub18, sv)
        for o in sub18.obligations:
            if o.rule == 'R18.6':
                sub.add('R5.11', (o.module, o.qualname), o.construct, o.status, o.message, o.lineno, o.detail)
    finally:
        ctx.report = saved
    n = 0
    for o in sub.obligations:
        n += 1
        rep.add('R11.6', (o.module, o.qualname), '%s: %s' % (o.rule, o.construct), o.status, o.message, o.lineno, o.detail)
    if n < 8:
        raise AnalysisError('anchor vanished: only %d obligations about the buffering of sort' % n)


def r117(ctx, rep):
    from . import c12
    from ..report import Report
    sub = Report('C12', ctx.tier, ctx.root)
    saved = ctx.report
    ctx.report = sub
    try:
        c12.r1211(ctx, sub)
    finally:
        ctx.report = saved
    for o in sub.obligations:
        rep.add('R11.7', (o.module, o.qualname), o.construct, o.status,
                (o.message + ' -- after a spilled sort (small buffersize) every cell is a copy, so the result depends on the '
                 'buffer size') if o.status == 'violated' else o.message, o.lineno, o.detail)


# ----------------------------------------------------------------------- R11.1
def r111(ctx, rep):
    n_sites = 0
    n_accept = 0
    for fn in ctx.functions(['petl'], controls=[CONTROL]):
        sf = [s for s in STRAT if s in fn.params]
        real = not fn.module.name.startswith('petl._controls')
        if sf and real:
            n_accept += 1
        if not sf:
            continue
        for node in own_nodes(fn.node):
            if not isinstance(node, ast.Call):
                continue
            for g, bound in _callee_fns(ctx, fn, node):
                sg = [s for s in sf if s in g.params]
                if not sg:
                    continue
                if real:
                    n_sites += 1
                ps = _passed(g, bound, node, 'presorted', fn)
                literal_presorted = ps is not None and ps[1] is not None and _is_true(ps[1])
                for s in sg:
                    p = _passed(g, bound, node, s, fn)
                    construct = '%s(...): %s' % (norm(node.func), s)
                    if p is None:
                        if literal_presorted:
                            rep.held('R11.1', fn, construct, 'literal presorted=True: the callee does not sort', node)
                        else:
                            rep.violated('R11.1', fn, construct,
                                         'call of %s drops the caller\'s `%s`: the internal sort falls back to the '
                                         'default strategy (with cache=False later passes are served from a hidden '
                                         'cache; buffersize/tempdir are ignored)' % (g.fq, s), node)
                    elif p[0] == 'spread':
                        rep.held('R11.1', fn, construct, 'forwarded by * / ** spread', node)
                    else:
                        v = p[1]
                        if isinstance(v, ast.Name) and v.id == s:
                            rep.held('R11.1', fn, construct, 'forwarded unchanged', node)
                        else:
                            rep.violated('R11.5', fn, construct,
                                         '`%s` is not passed through unchanged but as `%s`' % (s, norm(v)), node)
    ctx.floor('strategy_accepting_callables', n_accept, 44)
    ctx.floor('forwarding_sites', n_sites, 55)


# ----------------------------------------------------------------------- R11.2
def r112(ctx, rep):
    n = 0
    for fn in ctx.functions(['petl'], controls=[CONTROL]):
        real = not fn.module.name.startswith('petl._controls')
        for p, want in DEFAULTS.items():
            if p not in fn.params:
                continue
            if p == 'cache' and not any(s in fn.params for s in ('buffersize', 'tempdir', 'presorted')) \
                    and 'hashjoin' not in fn.module.name and 'hash' not in fn.name.lower() \
                    and fn.cls is None and not fn.module.name.startswith('petl._controls'):
                # `cache` of unrelated APIs (e.g. remote sources) is not a sort strategy
                if not fn.module.name.startswith('petl.transform'):
                    continue
            if real:
                n += 1
            d = fn.defaults.get(p)
            if d is None:
                # positional without default (internal iterator functions): nothing to check
                continue
            ok = isinstance(d, ast.Constant) and d.value is want
            if ok:
                rep.held('R11.2', fn, 'default %s' % p, '', fn.node)
            else:
                rep.violated('R11.2', fn, 'default %s' % p,
                             'default of `%s` is %s, expected %r: omitting the argument no longer selects the '
                             'documented global default' % (p, norm(d), want), fn.node)
    _buffersize_resolution(ctx, rep)
    ctx.floor('default_sites', n, 150)


# ------------------------------------------------------- R11.2: None -> config
def _is_none_test(t):
    """`X is None` -> (X, True); `X is not None` -> (X, False)"""
    if isinstance(t, ast.Compare) and len(t.ops) == 1 and isinstance(t.comparators[0], ast.Constant) \
            and t.comparators[0].value is None:
        if isinstance(t.ops[0], ast.Is):
            return t.left, True
        if isinstance(t.ops[0], ast.IsNot):
            return t.left, False
    return None


def _resolution_idiom(pm, node):
    """config.sort_buffersize used only to replace a None: `if X is None: X = config...` / `... if X is None else X`"""
    from ..absint import enclosing
    for p, c in enclosing(pm, node):
        if isinstance(p, ast.Assign) and p.value is node and len(p.targets) == 1:
            tgt = norm(p.targets[0])
            for q, d in enclosing(pm, p):
                if isinstance(q, ast.If):
                    t = _is_none_test(q.test)
                    return bool(t and t[1] and any(d is b for b in q.body) and
                                norm(t[0]) in (tgt, tgt.replace('self.', '')))
                if isinstance(q, ast.stmt):
                    return False
        if isinstance(p, ast.IfExp):
            t = _is_none_test(p.test)
            if t and ((t[1] and p.body is node and norm(p.orelse) == norm(t[0])) or
                      (not t[1] and p.orelse is node and norm(p.body) == norm(t[0]))):
                return True
            return False
        if isinstance(p, ast.stmt):
            return False
    return False


from ..symres import NoneDefault, Sym as _Sym


def _buffersize_resolution(ctx, rep):
    """The number of rows sorted in memory at a time is the caller's
    buffersize, or petl.config.sort_buffersize when that is None, and one and
    the same quantity bounds every chunk read and decides `the source is
    exhausted`."""
    from ..absint import parent_map
    init = ctx.project.need_fn('petl.transform.sorts:SortView.__init__')
    nc = ctx.project.need_fn('petl.transform.sorts:SortView._iternocache')
    # (a) who consults the global default
    users = []
    for fn in ctx.functions(['petl'], controls=[CONTROL]):
        pm = None
        for node in own_nodes(fn.node):
            if isinstance(node, ast.Attribute) and node.attr == 'sort_buffersize':
                users.append((fn, node))
    in_sortview = [u for u in users if u[0].cls is not None and u[0].cls is init.cls]
    for fn, node in users:
        if fn.cls is not None and fn.cls is init.cls:
            rep.held('R11.2', fn, norm(node), 'SortView turns None into the global default', node)
        elif _resolution_idiom(parent_map(fn.node), node):
            rep.held('R11.2', fn, norm(node), 'replaces a None buffersize by the global default, nothing else', node)
        else:
            rep.violated('R11.2', fn, norm(node),
                         'config.sort_buffersize consulted outside SortView for something other than replacing a None '
                         'buffersize: the global default is interpreted on the way to the sort', node)
    # (b) one quantity for chunk reads and the exhaustion test
    roles = []
    for node in own_nodes(nc.node):
        if isinstance(node, ast.Call) and norm(node.func).endswith('islice') and len(node.args) >= 2:
            stop = node.args[1] if len(node.args) == 2 else node.args[2]
            roles.append(('chunk read', stop, node))
    for node in own_nodes(nc.node):
        if isinstance(node, (ast.If, ast.IfExp, ast.While)):
            cmps = [c for c in ast.walk(node.test) if isinstance(c, ast.Compare) and isinstance(c.left, ast.Call)
                    and norm(c.left.func) == 'len' and len(c.comparators) == 1]
            if not cmps:
                continue
            for c in cmps:
                roles.append(('exhaustion test', c.comparators[0], c))
            for c in ast.walk(node.test):
                nt = _is_none_test(c)
                if nt is not None:
                    roles.append(('unbounded test', nt[0], c))
    reads = [r for r in roles if r[0] == 'chunk read']
    if not reads or not any(r[0] == 'exhaustion test' for r in roles):
        raise AnalysisError('anchor vanished: SortView._iternocache has no islice chunk read / len(rows) exhaustion test')
    exprs = sorted({norm(r[1]) for r in roles})
    ref = norm(reads[0][1])
    for role, e, node in roles:
        if norm(e) == ref:
            rep.held('R11.2', nc, '%s: %s' % (role, norm(node)), 'bounded by `%s`' % ref, node)
        else:
            rep.violated('R11.2', nc, '%s: %s' % (role, norm(node)),
                         'the %s uses `%s` but chunks are read with `%s`: when the two differ (buffersize=None and the '
                         'global default) a source larger than one chunk is taken to be exhausted after the first chunk '
                         'and the remaining rows are lost, or never-ending chunks are written'
                         % (role, norm(e), ref), node)
    # (c) that quantity is the argument, or the global default when the argument is None
    nd = NoneDefault(ctx, 'sort_buffersize')
    for scen, arg in (('buffersize=None', 'NONE'), ('buffersize=n', 'USER')):
        try:
            env = {'buffersize': arg}
            envs = nd.run(init.node.body, env, {'self.buffersize', 'buffersize'}, init)
            if any('self.buffersize' not in e2 for e2 in envs):
                raise _Sym('self.buffersize is not set')
            gots = set()
            for e1 in envs:
                env2 = {'self.buffersize': e1['self.buffersize']}
                names = {ref} if '.' not in ref else set()
                for e3 in nd.run(nc.node.body, env2, names, nc):
                    gots.add(nd.eval(reads[0][1], e3, nc))
            want0 = 'CONFIG' if arg == 'NONE' else 'USER'
            bad = sorted(g for g in gots if g != want0)
            got = bad[0] if bad else want0
        except _Sym as e:
            rep.undecided('R11.2', nc, 'chunk size when %s' % scen, str(e), reads[0][2])
            continue
        want = 'CONFIG' if arg == 'NONE' else 'USER'
        if got == want:
            rep.held('R11.2', nc, 'chunk size when %s' % scen, got, reads[0][2])
        else:
            rep.violated('R11.2', nc, 'chunk size when %s' % scen,
                         'chunks are read with `%s`, which is %s here; expected %s' % (
                             ref, {'NONE': 'None (unbounded: the whole source is sorted in memory)', 'CONFIG': 'the global default', 'CONST': 'a fixed literal',
                                   'USER': 'the caller\'s value'}[got],
                             'petl.config.sort_buffersize' if want == 'CONFIG' else 'the caller\'s buffersize'), reads[0][2])


# ----------------------------------------------------------------------- R11.3
def _sort_calls(ctx, fn, node):
    out = []
    for n in ast.walk(node):
        if isinstance(n, ast.Call):
            for g, bound in _callee_fns(ctx, fn, n):
                if g.fq in SORT_FQ:
                    out.append(n)
    return out


def _expected_key_name(fn, table_name):
    """By the package's naming convention the key parameter that belongs to a
    table parameter: left->lkey, right->rkey, otherwise key."""
    cand = table_name[0] + 'key'
    if cand in fn.params:
        return cand
    if 'key' in fn.params:
        return 'key'
    return None


def r113(ctx, rep):
    ti = tableinfo(ctx)
    n_ctor = 0
    views = ctx.views.real_views() + ctx.views.control_views(CONTROL)
    for v in views:
        init = v.init
        if init is None or init.cls is not v.cls or 'presorted' not in init.params:
            continue
        real = not v.cls.module.name.startswith('petl._controls')
        if real:
            n_ctor += 1
        _ctor_presorted(ctx, rep, ti, init)
    ctx.floor('presorted_constructors', n_ctor, 15)
    n_fwd = check_presorted_calls(ctx, rep, 'R11.3', ctx.functions(['petl'], controls=[CONTROL]), ti)
    ctx.floor('presorted_forwarding_sites', n_fwd, 20)


def check_presorted_calls(ctx, rep, rule, fns, ti=None):
    """functions: `presorted` forwarded only with the caller's own table; a literal presorted=True justified by a sort of
    the very table that is passed"""
    ti = ti or tableinfo(ctx)
    n_fwd = 0
    before = len(rep.obligations)
    for fn in fns:
        real = not fn.module.name.startswith('petl._controls')
        for node in own_nodes(fn.node):
            if not isinstance(node, ast.Call):
                continue
            for g, bound in _callee_fns(ctx, fn, node):
                if 'presorted' not in g.params:
                    continue
                p = _passed(g, bound, node, 'presorted', fn)
                if p is None or p[1] is None:
                    continue
                v = p[1]
                tparams = ti.ctor_table_params(g) if g.name == '__init__' else \
                    {s for s in ti.table_sources(g) if not s.startswith('self')}
                targs = []
                for tp in sorted(tparams):
                    base = tp[:-2] if tp.endswith('[]') else tp
                    a = _passed(g, bound, node, base)
                    if a is not None and a[1] is not None:
                        targs.append((tp, a[1]))
                if isinstance(v, ast.Name) and v.id == 'presorted' and 'presorted' in fn.params:
                    if real:
                        n_fwd += 1
                    bad = [(tp, a) for tp, a in targs if _sort_calls(ctx, fn, a)]
                    construct = '%s(..., presorted=presorted)' % norm(node.func)
                    # the promise is about the caller's table as it was passed in: a projection / other view of it
                    # (cut, cutout, ...) is not ordered by the callee's key (whole rows of a projection, say)
                    derived = [(tp, a) for tp, a in targs if isinstance(a, ast.Call) and not _sort_calls(ctx, fn, a) and
                               any(r.kind in ('func', 'class') and getattr(r.target, 'module', None) is not None
                                   for r in ctx.res.resolve_call(fn, a))]
                    if derived and not bad:
                        rep.violated('R11.3', fn, construct,
                                     'the caller\'s presorted flag is forwarded together with a view derived from its table '
                                     '(%s): that view is not known to be ordered by the key the callee sorts by, so '
                                     'presorted=True makes the callee skip a sort it needs' % norm(derived[0][1])[:60], node)
                    elif bad:
                        rep.violated('R11.3', fn, construct,
                                     'the caller\'s presorted flag is forwarded together with a table that was '
                                     're-sorted by another key (%s): presorted=True then skips the sort by the '
                                     'operator\'s key on a table that is no longer ordered by it' % norm(bad[0][1]),
                                     node)
                    else:
                        rep.held('R11.3', fn, construct, 'forwarded with the caller\'s own table(s)', node)
                elif _is_true(v):
                    if real:
                        n_fwd += 1
                    construct = '%s(..., presorted=True)' % norm(node.func)
                    _literal_presorted(ctx, rep, fn, node, g, bound, targs, construct)
    if rule != 'R11.3':
        for o in rep.obligations[before:] + rep.control_obligations:
            if o.rule == 'R11.3':
                o.rule = rule
    return n_fwd


def _ctor_presorted(ctx, rep, ti, init):
    body = init.node.body
    try:
        atoms, rows = dtable(body, opaque=True)
    except Unsupported as e:
        rep.undecided('R11.3', init, 'presorted ladder', str(e), init.node)
        return
    if 'presorted' not in atoms:
        rep.violated('R11.3', init, 'presorted', 'the constructor accepts `presorted` but never tests it', init.node)
        return
    tparams = [p for p in ti.ctor_table_params(init)]
    sorted_when_false = False
    skipped = set()
    rows = list(rows)

    def _sorted_tables(sorts):
        out = set()
        for stmt, call in sorts:
            app = call.app
            tnode = app.over if app.over is not None else app.table
            if tnode is None:
                continue
            for n in ast.walk(tnode):
                if isinstance(n, ast.Name) and n.id in init.params and n.id != 'self':
                    out.add(n.id)
                    break
        return out
    # the tables that are sorted when presorted is false and nothing else is set: each of them needs its sort on every
    # other path with presorted false as well
    baseline = set()
    for val, oc in rows:
        if not val['presorted'] and all(not v for k, v in val.items() if k != 'presorted'):
            baseline |= _sorted_tables(_effect_sort_apps(ctx, init, oc.effects))
    for val, oc in rows:
        sorts = _effect_sort_apps(ctx, init, oc.effects)
        if not val['presorted'] and sorts and baseline - _sorted_tables(sorts):
            lost = sorted(baseline - _sorted_tables(sorts))
            cond = sorted(k for k, v in val.items() if k != 'presorted' and v)
            about = False
            for c in cond:
                try:
                    ce = ast.parse(c, mode='eval')
                except SyntaxError:
                    continue
                if any(isinstance(x, ast.Name) and x.id in lost for x in ast.walk(ce)):
                    about = True
            key = 'presorted=False: no sort when ' + ' and '.join(cond)[:120]
            if about and key not in skipped:
                skipped.add(key)
                rep.undecided('R11.3', init, key,
                              'the sort of %s is skipped although presorted is false; the condition would have to establish that '
                              'the input is ordered by the key the operator compares (same fields in the same order, ascending '
                              'where the operator merges)' % ', '.join(lost), init.node)
        if val['presorted']:
            if sorts:
                rep.violated('R11.3', init, 'presorted=True: %s' % norm(sorts[0][1]),
                             'a sort is applied although presorted is true (valuation %s)' %
                             {k: v for k, v in val.items()}, sorts[0][1])
            continue
        others_false = all(not v for k, v in val.items() if k != 'presorted')
        if sorts:
            sorted_when_false = True
            for stmt, call in sorts:
                # key consistency
                app = call.app
                tnode = app.over if app.over is not None else app.table
                knode = app.args.get('key')
                tname = None
                if tnode is not None:
                    for n in ast.walk(tnode):
                        if isinstance(n, ast.Name) and n.id in init.params and n.id != 'self':
                            tname = n.id
                            break
                        if isinstance(n, ast.Attribute) and isinstance(n.value, ast.Name) and n.value.id == 'self':
                            tname = n.attr
                            break
                if tname is None:
                    continue
                want = _expected_key_name(init, tname)
                construct = 'sort(%s, key=%s)' % (tname, norm(knode) if knode is not None else 'None')
                if knode is None:
                    if want is None:
                        rep.held('R11.3', init, construct, 'whole-row sort of an operator without key', call)
                    else:
                        rep.violated('R11.3', init, construct,
                                     'table `%s` is sorted by the whole row although the operator has the key '
                                     'parameter `%s`' % (tname, want), call)
                elif isinstance(knode, ast.Name):
                    if want is not None and knode.id != want:
                        rep.violated('R11.3', init, construct,
                                     'table `%s` is sorted by `%s` but the operator compares it by `%s`'
                                     % (tname, knode.id, want), call)
                    else:
                        rep.held('R11.3', init, construct, '', call)
                else:
                    rep.held('R11.3', init, construct, 'composite key expression', call)
        elif others_false:
            rep.violated('R11.3', init, 'presorted=False',
                         'no sort is applied although presorted is false (valuation %s)' % val, init.node)
        else:
            # presorted is false and the sort is skipped on some other condition (the input "is already sorted"): whether
            # that condition establishes the order the operator needs is not something the shape of the code shows
            cond = sorted(k for k, v in val.items() if k != 'presorted' and v)
            key = 'presorted=False: no sort when ' + ' and '.join(cond)[:120]
            # (a mode of the operator itself -- `key is None`: nothing to group by -- is not a claim about the input; a
            # condition that inspects the table is)
            tnames = {t[:-2] if t.endswith('[]') else t for t in tparams}
            about_input = False
            for c in cond:
                try:
                    ce = ast.parse(c, mode='eval')
                except SyntaxError:
                    continue
                if any(isinstance(x, ast.Name) and x.id in tnames for x in ast.walk(ce)):
                    about_input = True
            if about_input and key not in skipped:
                skipped.add(key)
                rep.undecided('R11.3', init, key,
                              'the sort is skipped although presorted is false; the condition would have to establish that the '
                              'input is ordered by the key the operator compares (same fields in the same order, ascending where '
                              'the operator merges)', init.node)
    _same_modulo_sort(ctx, rep, init, rows)
    if sorted_when_false:
        rep.held('R11.3', init, 'presorted ladder', 'sorts exactly when presorted is false', init.node)
    elif not any(True for _ in rows):
        rep.undecided('R11.3', init, 'presorted ladder', 'no valuation', init.node)


def _effect_sort_apps(ctx, init, effects):
    """[(statement, expression node)] of the sort applications one valuation executes, whatever their spelling
    (sort(...), SortView(...), functools.partial(sort, ...), **options, comprehensions, map); the node carries the
    SortApp as `.app`.  Locals are looked through, the same application reached through an alias is counted once."""
    from .sortapp import sort_applications, sort_application
    from ..ladder import resolve, unroll
    out = []
    seen = set()
    for i, s in enumerate(effects):
        if isinstance(s, ast.Assign):
            val = resolve(s.value, effects[:i])
            parts = unroll(val)
            apps = []
            for part in (parts if parts is not None else [val]):
                apps.extend(sort_applications(ctx, init, part))
        elif isinstance(s, (ast.For, ast.While, ast.With, ast.FunctionDef, ast.ClassDef)):
            apps = sort_applications(ctx, init, s)
        else:
            apps = sort_applications(ctx, init, s)
        for app in apps:
            k = norm(app.node)
            if k in seen:
                continue
            seen.add(k)
            node = app.node
            try:
                node.app = app
            except AttributeError:
                continue
            if not hasattr(node, 'lineno'):
                ast.copy_location(node, s)
            out.append((s, node))
    return out


class _Subst(ast.NodeTransformer):
    def __init__(self, env):
        self.env = env

    def generic_visit(self, node):
        if isinstance(node, (ast.Name, ast.Attribute)) and isinstance(getattr(node, 'ctx', None), ast.Load):
            k = norm(node)
            if k in self.env:
                return self.env[k]
        return super().generic_visit(node)


def _final_attrs(effects):
    """self.<attr> -> final expression (earlier assignments substituted) for one valuation"""
    import copy
    env = {}
    for s in effects:
        if isinstance(s, ast.Assign) and len(s.targets) == 1 and isinstance(s.targets[0], (ast.Name, ast.Attribute)):
            val = _Subst(env).visit(copy.deepcopy(s.value))
            env[norm(s.targets[0])] = val
        elif isinstance(s, ast.Assign) and len(s.targets) == 1 and isinstance(s.targets[0], ast.Tuple) and \
                isinstance(s.value, ast.Tuple) and len(s.targets[0].elts) == len(s.value.elts):
            vals = [_Subst(env).visit(copy.deepcopy(v)) for v in s.value.elts]
            for t, v in zip(s.targets[0].elts, vals):
                if isinstance(t, (ast.Name, ast.Attribute)):
                    env[norm(t)] = v
        elif isinstance(s, ast.Assign) and len(s.targets) == 1 and isinstance(s.targets[0], (ast.Tuple, ast.List)):
            # a, b = <sequence whose elements are visible in the source> (a list display, a comprehension over zip(...))
            from ..ladder import unroll
            vals = unroll(_Subst(env).visit(copy.deepcopy(s.value)))
            if vals is not None and len(vals) == len(s.targets[0].elts):
                for t, v in zip(s.targets[0].elts, vals):
                    if isinstance(t, (ast.Name, ast.Attribute)):
                        env[norm(t)] = v
        elif isinstance(s, ast.For):
            # for t in S: X.append(E) on an empty X  ==  X = [E for t in S]
            from ..ladder import append_loop_as_comprehension
            comp = append_loop_as_comprehension(s, {k: v for k, v in env.items() if '.' not in k})
            if comp is not None:
                env[comp[0]] = comp[1]
    return {k: v for k, v in env.items() if k.startswith('self.')}


def _strip_sort(ctx, init, e):
    from .sortapp import strip_sort
    e2 = strip_sort(ctx, init, e)
    if e2 is not e:
        return e2
    while isinstance(e, ast.Call) and e.args and any(g.fq in SORT_FQ for g, b in _callee_fns(ctx, init, e)):
        e = e.args[0]
    if isinstance(e, (ast.ListComp, ast.GeneratorExp)) and len(e.generators) == 1 and not e.generators[0].ifs:
        # [sort(t, ...) for t in tables] is `tables` up to the sort
        g = e.generators[0]
        inner = _strip_sort(ctx, init, e.elt)
        if inner is not e.elt and norm(inner) == norm(g.target):
            return g.iter
    return e


def _same_modulo_sort(ctx, rep, init, rows):
    """presorted may add or skip a sort() around an input and nothing else:
    under valuations that differ only in `presorted`, every attribute the
    constructor stores is the same expression once sort(...) wrappers are
    removed."""
    by = {}
    for val, oc in rows:
        rest = tuple(sorted((k, v) for k, v in val.items() if k != 'presorted'))
        by.setdefault(rest, {})[bool(val['presorted'])] = oc
    for rest, pair in sorted(by.items()):
        if True not in pair or False not in pair:
            continue
        a = _final_attrs(pair[True].effects)
        b = _final_attrs(pair[False].effects)
        for attr in sorted(set(a) | set(b)):
            ea = a.get(attr)
            eb = b.get(attr)
            construct = '%s under presorted=True/False%s' % (attr, (' (%s)' % ', '.join('%s=%s' % kv for kv in rest)) if rest else '')
            if ea is None or eb is None:
                rep.violated('R11.3', init, construct,
                             '%s is stored only when presorted is %s' % (attr, ea is not None), init.node)
                continue
            ta = norm(_strip_sort(ctx, init, ea))
            tb = norm(_strip_sort(ctx, init, eb))
            if ta == tb:
                rep.held('R11.3', init, construct, 'both are `%s` up to the sort' % ta[:60], init.node)
            else:
                rep.violated('R11.3', init, construct,
                             'apart from the sort the two branches differ: `%s` when presorted, `%s` otherwise: '
                             'presorted=True then changes more than the execution strategy (e.g. short rows are no '
                             'longer squared up, a projection is skipped)' % (ta[:80], tb[:80]), init.node)


def _literal_presorted(ctx, rep, fn, node, g, bound, targs, construct):
    """presorted=True literal: each table argument must be, on every path, the
    result of a sort in this function (by the key passed on) or the caller's
    own table under its own presorted flag / a documented sorted producer."""
    from .common import analysed
    fa, events = analysed(ctx, fn)
    st = fa.state_before(_stmt_of(fa, node))
    if st is None:
        rep.held('R11.3', fn, construct, 'unreachable', node)
        return
    okall = True
    why = []
    for tp, a in targs:
        v = fa.eval_pure(a, st)
        sorted_atoms = [x for x in v if x[0] == 'SORTED']
        raw = [x for x in v if x[0] in ('ARG', 'SELFATTR')]
        other = [x for x in v if x[0] in ('TABLE', 'DATA') and not any(True for _ in sorted_atoms)]
        if raw and 'presorted' not in fn.params:
            okall = False
            why.append('`%s` may be the caller\'s unsorted table' % norm(a))
        elif not sorted_atoms and not raw and other:
            okall = False
            why.append('`%s` is a view that was not produced by sort/mergesort here' % norm(a))
        elif sorted_atoms and 'presorted' not in fn.params and isinstance(a, ast.Name):
            # every definition of the variable has to be a sort result: a definition that is the caller's table as it
            # was passed in (a parameter, an element of *tables) next to one that sorts means "sorted on one path only"
            defs = [x for x in own_nodes(fn.node) if isinstance(x, ast.Assign) and
                    any(isinstance(t, ast.Name) and t.id == a.id for t in x.targets)]
            names = set(fn.params) | ({fn.vararg} if fn.vararg else set())
            plain = [x for x in defs if not _sort_calls(ctx, fn, x.value) and not any(isinstance(y, ast.Call) for y in ast.walk(x.value))
                     and any(isinstance(y, ast.Name) and y.id in names for y in ast.walk(x.value))]
            def sorts(x):
                if _sort_calls(ctx, fn, x.value):
                    return True
                return any(g.fq in ('petl.transform.sorts:mergesort', 'petl.transform.sorts:MergeSortView.__init__')
                           for c in ast.walk(x.value) if isinstance(c, ast.Call) for g, _b in _callee_fns(ctx, fn, c))
            plain = [x for x in plain if not _killed_before(fn.node, x, defs, node)]
            if plain and any(sorts(x) for x in defs):
                okall = False
                why.append('`%s` is sorted on one path only: line %d binds it to the caller\'s table as it was passed in (`%s`)'
                           % (a.id, plain[0].lineno, norm(plain[0])[:50]))
    if okall:
        rep.held('R11.3', fn, construct, 'every table argument was sorted here (or is the caller\'s own under its presorted flag)', node)
    else:
        rep.violated('R11.3', fn, construct, 'literal presorted=True is not justified: ' + '; '.join(why), node)


def _killed_before(fn_node, d1, defs, use):
    """A later binding of the same variable that is a direct statement of a block, with d1 in (or being) an earlier
    statement of that block and the use in (or being) a later one: d1 never reaches the use."""
    def inside(stmt, x):
        return any(y is x for y in ast.walk(stmt))
    for holder in ast.walk(fn_node):
        for field in ('body', 'orelse', 'finalbody'):
            L = getattr(holder, field, None)
            if not isinstance(L, list):
                continue
            i1 = next((i for i, st in enumerate(L) if isinstance(st, ast.stmt) and inside(st, d1)), None)
            iu = next((i for i, st in enumerate(L) if isinstance(st, ast.stmt) and inside(st, use)), None)
            if i1 is None or iu is None:
                continue
            # only bindings strictly before the statement of the use kill (in `t = sort(t)` the use reads d1)
            for j in range(i1 + 1, iu):
                if any(L[j] is d for d in defs) and L[j] is not d1:
                    return True
    return False


def _stmt_of(fa, node):
    pm = fa.parents()
    cur = node
    while id(cur) in pm and not isinstance(cur, ast.stmt):
        cur = pm[id(cur)]
    return cur


# ----------------------------------------------------------------------- R11.4
def r114(ctx, rep):
    it = ctx.project.need_fn('petl.transform.sorts:SortView.__iter__')
    _sortview_dispatch(ctx, rep, it)
    nc = ctx.project.need_fn('petl.transform.sorts:SortView._iternocache')
    _publish_under_cache(ctx, rep, nc)
    for name in ('HashJoinView', 'HashLeftJoinView', 'HashRightJoinView'):
        fn = ctx.project.need_fn('petl.transform.hashjoins:%s.__iter__' % name)
        _hash_dispatch(ctx, rep, fn)
    cm = ctx.project.modules.get('petl._controls.' + CONTROL)
    if cm is not None:
        for q, fn in cm.functions.items():
            if q.endswith('SortDispatch.__iter__'):
                _sortview_dispatch(ctx, rep, fn)
            if q.endswith('HashDispatch.__iter__'):
                _hash_dispatch(ctx, rep, fn)


def _call_name(node):
    if isinstance(node, ast.Return) and isinstance(node.value, ast.Call):
        f = node.value.func
        if isinstance(f, ast.Attribute):
            return f.attr
        if isinstance(f, ast.Name):
            return f.id
    return None


def _sortview_dispatch(ctx, rep, fn):
    try:
        atoms, rows = dtable(fn.node.body)
    except Unsupported as e:
        rep.undecided('R11.4', fn, 'dispatch', str(e), fn.node)
        return
    need = {'self.cache', 'self._memcache is None', 'self._filecache is None'}
    if not need <= set(atoms):
        raise AnalysisError('anchor vanished: %s no longer tests %s (found %s)' % (fn.fq, sorted(need - set(atoms)), atoms))
    ok = True
    for val, oc in rows:
        target = _call_name(oc.node)
        cache = val['self.cache']
        mem = not val['self._memcache is None']
        fil = not val['self._filecache is None']
        if not cache:
            want = '_iternocache'
        elif mem:
            want = '_iterfrommemcache'
        elif fil:
            want = '_iterfromfilecache'
        else:
            want = '_iternocache'
        case = 'cache=%s memcache=%s filecache=%s' % (cache, 'set' if mem else 'None', 'set' if fil else 'None')
        if target == want or (cache and mem and fil and target in ('_iterfrommemcache', '_iterfromfilecache')):
            rep.held('R11.4', fn, case, '-> %s' % target, oc.node)
        else:
            ok = False
            rep.violated('R11.4', fn, case,
                         'dispatches to %s, expected %s: %s' % (
                             target, want,
                             'a cached result is served although cache is false' if not cache else
                             'a completed pass is not replayed from its cache / an empty cache is served'),
                         oc.node if oc.node is not None else fn.node)


def _publish_under_cache(ctx, rep, fn):
    """Every store to a cache attribute in the no-cache iterator is guarded by
    a truthy `self.cache` test (resets to None excepted)."""
    from ..absint import parent_map, enclosing
    pm = parent_map(fn.node)
    n = 0
    for node in ast.walk(fn.node):
        if isinstance(node, ast.Assign):
            for t in node.targets:
                if isinstance(t, ast.Attribute) and isinstance(t.value, ast.Name) and t.value.id == 'self' \
                        and t.attr in ('_hdrcache', '_memcache', '_filecache', '_getkey'):
                    if isinstance(node.value, ast.Constant) and node.value.value is None:
                        continue
                    n += 1
                    guarded = False
                    for p, c in enclosing(pm, node, stop=fn.node):
                        if isinstance(p, ast.If) and any(c is b for b in p.body) and norm(p.test) == 'self.cache':
                            guarded = True
                    if guarded:
                        rep.held('R11.4', fn, norm(node), 'published under `if self.cache`', node)
                    else:
                        rep.violated('R11.4', fn, norm(node),
                                     'sort result stored in the view although cache may be false', node)
    if n < 4:
        raise AnalysisError('anchor vanished: %s publishes only %d cache fields' % (fn.fq, n))


def _hash_dispatch(ctx, rep, fn):
    try:
        atoms, rows = dtable(fn.node.body)
    except Unsupported as e:
        rep.undecided('R11.4', fn, 'lookup cache dispatch', str(e), fn.node)
        return
    cache_atoms = [a for a in atoms if a == 'self.cache']
    # "a lookup exists" may be tested as `self.X is None` or by truthiness `self.X`
    none_atoms = [a for a in atoms if a.endswith('lookup is None')]
    truth_atoms = [a for a in atoms if a.startswith('self.') and a.endswith('lookup')]
    if not cache_atoms or not (none_atoms or truth_atoms):
        rep.violated('R11.4', fn, 'lookup cache dispatch',
                     'the view no longer decides from self.cache and the presence of its lookup whether to rebuild it (tests '
                     'found: %s): either the cache flag is ignored or a stale lookup is reused' % atoms, fn.node)
        return
    if none_atoms:
        pa = none_atoms[0]
        attr = pa.split(' is ')[0]
        absent = lambda val: val[pa]
    else:
        pa = truth_atoms[0]
        attr = pa
        absent = lambda val: not val[pa]
    for val, oc in rows:
        rebuilt = any(isinstance(s, ast.Assign) and any(norm(t) == attr for t in s.targets) and
                      isinstance(s.value, ast.Call) and not any(k.arg == 'dictionary' for k in s.value.keywords)
                      for s in oc.effects)
        refilled = any(isinstance(x, ast.Call) and any(k.arg == 'dictionary' and norm(k.value) == attr for k in x.keywords)
                       for s in oc.effects for x in ast.walk(s))
        must = (not val['self.cache']) or absent(val)
        case = 'cache=%s %s' % (val['self.cache'], 'lookup absent' if absent(val) else 'lookup present')
        if refilled:
            rep.violated('R11.4', fn, case,
                         'the existing lookup %s is filled again in place (dictionary=%s): rows of an earlier pass stay in it, so '
                         'with cache=False every pass multiplies the matches' % (attr, attr), fn.node)
        elif rebuilt == must:
            rep.held('R11.4', fn, case, 'rebuild' if rebuilt else 'reuse', fn.node)
        else:
            rep.violated('R11.4', fn, case,
                         'the build-side lookup is %s, expected %s' % (
                             'rebuilt' if rebuilt else 'reused', 'rebuilt' if must else 'reused'), fn.node)
