"""Structured abstract interpreter over the Python AST of one function.

Python has no goto, so instead of building an explicit CFG the interpreter
walks the statement tree and keeps, for every construct, the sets of states
that leave it normally / by break / continue / return / exception.  Loops
are iterated to a fixpoint; ``try`` handlers start from the join of the states
before every statement of the body that may raise a matching exception;
``finally`` bodies see the join of normal and abrupt completions.

A *domain* object supplies the lattice (join / equality on states; a state of
``None`` means unreachable) and the transfer functions.  The interpreter
records the joined in-state of every statement (``pre``) so that rules can
afterwards ask "what is known whenever execution reaches this statement".
"""
from __future__ import annotations

import ast

EXC_PARENTS = {
    'StopIteration': ('Exception',),
    'IndexError': ('LookupError', 'Exception'),
    'KeyError': ('LookupError', 'Exception'),
    'LookupError': ('Exception',),
    'TypeError': ('Exception',),
    'ValueError': ('Exception',),
    'AttributeError': ('Exception',),
    'EOFError': ('Exception',),
    'ZeroDivisionError': ('ArithmeticError', 'Exception'),
    'ArithmeticError': ('Exception',),
    'ImportError': ('Exception',),
    'OSError': ('Exception',),
    'IOError': ('Exception',),
    'Exception': (),
    'GeneratorExit': (),
    'KeyboardInterrupt': (),
}
ANY = '*'   # "some Exception subclass we do not know"


def handler_types(h):
    """Names caught by an ExceptHandler; {'BaseException'} for a bare except."""
    if h.type is None:
        return {'BaseException'}
    out = set()
    elts = h.type.elts if isinstance(h.type, ast.Tuple) else [h.type]
    for e in elts:
        if isinstance(e, ast.Name):
            out.add(e.id)
        elif isinstance(e, ast.Attribute):
            out.add(e.attr)
        else:
            out.add('?')
    return out


def catches(types, kind):
    """(must, may): does a handler for `types` catch an exception of `kind`?"""
    if 'BaseException' in types:
        return True, True
    if kind == ANY:
        if 'Exception' in types:
            return True, True
        # ANY stands for "some ordinary error"; StopIteration is tracked
        # separately (next() typestate), so handlers for it alone do not match
        if types <= {'StopIteration', 'GeneratorExit', 'KeyboardInterrupt'}:
            return False, False
        return False, True      # may be one of the listed ones
    if kind in types:
        return True, True
    for p in EXC_PARENTS.get(kind, ('Exception',)):
        if p in types:
            return True, True
    if '?' in types:
        return False, True
    return False, False


class _TryFrame(object):
    def __init__(self, node):
        self.node = node
        self.types = [handler_types(h) for h in node.handlers]
        self.entry = [None] * len(node.handlers)   # joined handler in-states
        self.all_exc = None                        # everything raised in body


class _LoopFrame(object):
    def __init__(self):
        self.breaks = None
        self.continues = None


class Interp(object):
    MAX_ITER = 12

    def __init__(self, fn_node, domain):
        self.fn_node = fn_node
        self.d = domain
        self.pre = {}      # id(stmt) -> joined in-state
        self.post = {}     # id(stmt) -> joined out-state (normal completion)
        self.nodes = {}    # id(stmt) -> stmt
        self.tries = []
        self.loops = []
        self.returns = None      # joined state at `return`
        self.exit_exc = None     # joined state of exceptions leaving the function
        self.exit_normal = None
        self.yields = []

    # ---------------------------------------------------------------- helpers
    def join(self, a, b):
        if a is None:
            return b
        if b is None:
            return a
        return self.d.join(a, b)

    def _record(self, table, node, st):
        k = id(node)
        self.nodes[k] = node
        table[k] = self.join(table.get(k), st)

    def raise_from(self, st, kinds):
        """Register that an exception of one of `kinds` may be raised in state st."""
        if st is None or not kinds:
            return
        remaining = set(kinds)
        for fr in reversed(self.tries):
            fr.all_exc = self.join(fr.all_exc, st)
            still = set()
            for k in remaining:
                caught_must = False
                for i, types in enumerate(fr.types):
                    must, may = catches(types, k)
                    if may:
                        fr.entry[i] = self.join(fr.entry[i], st)
                    if must:
                        caught_must = True
                        break
                if not caught_must:
                    still.add(k)
            remaining = still
            if not remaining:
                return
        self.exit_exc = self.join(self.exit_exc, st)

    # ------------------------------------------------------------------- run
    def run(self):
        st = self.d.entry_state()
        out = self.block(self.fn_node.body, st)
        self.exit_normal = self.join(out, self.returns)
        return self

    def block(self, body, st):
        for s in body:
            if st is None:
                break
            st = self.stmt(s, st)
        return st

    def stmt(self, s, st):
        self._record(self.pre, s, st)
        m = getattr(self, 'do_' + type(s).__name__, None)
        if m is None:
            out = self.simple(s, st)
        else:
            out = m(s, st)
        if out is not None:
            self._record(self.post, s, out)
        return out

    def simple(self, s, st):
        kinds = self.d.may_raise(s, st)
        if kinds:
            self.raise_from(st, kinds)
        return self.d.exec_simple(s, st)

    # ------------------------------------------------------ compound statements
    def do_FunctionDef(self, s, st):
        return self.d.exec_def(s, st)

    do_AsyncFunctionDef = do_FunctionDef

    def do_ClassDef(self, s, st):
        return st

    def do_Return(self, s, st):
        kinds = self.d.may_raise(s, st)
        if kinds:
            self.raise_from(st, kinds)
        st2 = self.d.exec_return(s, st)
        self.returns = self.join(self.returns, st2)
        # `finally` blocks on the way out see this state
        for fr in self.tries:
            pass
        self._abrupt = True
        return None

    def do_Raise(self, s, st):
        kind = ANY
        if s.exc is not None:
            e = s.exc.func if isinstance(s.exc, ast.Call) else s.exc
            if isinstance(e, ast.Name):
                kind = e.id
            elif isinstance(e, ast.Attribute):
                kind = e.attr
        if kind not in EXC_PARENTS:
            kind = ANY
        self.d.exec_raise(s, st)
        self.raise_from(st, {kind})
        return None

    def do_Break(self, s, st):
        if self.loops:
            lf = self.loops[-1]
            lf.breaks = self.join(lf.breaks, st)
        return None

    def do_Continue(self, s, st):
        if self.loops:
            lf = self.loops[-1]
            lf.continues = self.join(lf.continues, st)
        return None

    def do_If(self, s, st):
        kinds = self.d.may_raise_expr(s.test, st)
        if kinds:
            self.raise_from(st, kinds)
        st = self.d.exec_test(s.test, st)
        a = self.block(s.body, self.d.assume(s.test, st, True))
        b = self.block(s.orelse, self.d.assume(s.test, st, False))
        return self.join(a, b)

    PEEL = True     # analyse the first pass of every loop from the entry state alone (exact: loop = first pass + rest)

    def do_While(self, s, st):
        lf = _LoopFrame()
        head = st
        exit_st = None
        const_true = isinstance(s.test, ast.Constant) and bool(s.test.value)
        entry_exit = None
        if self.PEEL:
            # what is true only before the first pass (initial sentinels, "first time" flags) is not mixed into the
            # state of later passes
            self.loops.append(lf)
            try:
                kinds = self.d.may_raise_expr(s.test, st)
                if kinds:
                    self.raise_from(st, kinds)
                h2 = self.d.exec_test(s.test, st)
                body_in = self.d.assume(s.test, h2, True)
                out = self.block(s.body, body_in) if body_in is not None else None
            finally:
                self.loops.pop()
            if not const_true:
                entry_exit = self.d.assume(s.test, self.d.exec_test(s.test, st), False)
            head = self.join(out, lf.continues)
            if head is None:
                ex = entry_exit
                if s.orelse and ex is not None:
                    ex = self.block(s.orelse, ex)
                return self.join(ex, lf.breaks)
        for _ in range(self.MAX_ITER):
            self.loops.append(lf)
            try:
                kinds = self.d.may_raise_expr(s.test, head)
                if kinds:
                    self.raise_from(head, kinds)
                h2 = self.d.exec_test(s.test, head)
                body_in = self.d.assume(s.test, h2, True)
                out = self.block(s.body, body_in)
            finally:
                self.loops.pop()
            new_head = self.join(head, self.join(out, lf.continues))
            if self.d.equal(new_head, head):
                break
            head = new_head
        else:
            head = self.d.widen(head)
        if not const_true:
            exit_st = self.d.assume(s.test, self.d.exec_test(s.test, head), False)
        exit_st = self.join(exit_st, entry_exit)
        if s.orelse and exit_st is not None:
            exit_st = self.block(s.orelse, exit_st)
        return self.join(exit_st, lf.breaks)

    def do_For(self, s, st):
        kinds = self.d.may_raise_expr(s.iter, st)
        if kinds:
            self.raise_from(st, kinds)
        st = self.d.enter_for(s, st)          # evaluate the iterable once
        if st is None:
            return None
        lf = _LoopFrame()
        head = st
        iterated = None
        if self.PEEL:
            self.loops.append(lf)
            try:
                body_in = self.d.bind_for(s, st)
                if body_in is not None:
                    bk = self.d.may_raise_for(s, st)
                    if bk:
                        self.raise_from(st, bk)
                out = self.block(s.body, body_in)
            finally:
                self.loops.pop()
            back = self.join(out, lf.continues)
            iterated = back
            if back is None:
                exit_st = self.d.exit_for(s, st, iterated, st)
                if s.orelse:
                    exit_st = self.block(s.orelse, exit_st)
                return self.join(exit_st, lf.breaks)
            head = back
        for _ in range(self.MAX_ITER):
            self.loops.append(lf)
            try:
                body_in = self.d.bind_for(s, head)
                if body_in is not None:
                    bk = self.d.may_raise_for(s, head)
                    if bk:
                        self.raise_from(head, bk)
                out = self.block(s.body, body_in)
            finally:
                self.loops.pop()
            back = self.join(out, lf.continues)
            iterated = self.join(iterated, back)
            new_head = self.join(head, back)
            if self.d.equal(new_head, head):
                break
            head = new_head
        else:
            head = self.d.widen(head)
        if self.PEEL:
            head = self.join(head, st)       # the loop is also left without any pass
        exit_st = self.d.exit_for(s, st, iterated, head)
        if s.orelse:
            exit_st = self.block(s.orelse, exit_st)
        return self.join(exit_st, lf.breaks)

    do_AsyncFor = do_For

    def do_With(self, s, st):
        for item in s.items:
            kinds = self.d.may_raise_expr(item.context_expr, st)
            if kinds:
                self.raise_from(st, kinds)
            st = self.d.enter_with(item, st)
        out = self.block(s.body, st)
        if out is not None:
            out = self.d.exit_with(s, out)
        return out

    do_AsyncWith = do_With

    def do_Try(self, s, st):
        fr = _TryFrame(s)
        saved_returns = self.returns
        self.tries.append(fr)
        try:
            body_out = self.block(s.body, st)
        finally:
            self.tries.pop()
        # else clause runs after normal completion, outside the handlers
        if s.orelse:
            body_out = self.block(s.orelse, body_out)
        outs = body_out
        for h, ent in zip(s.handlers, fr.entry):
            self._record(self.pre, h, ent)
            if ent is None:
                continue
            hst = self.d.enter_handler(h, ent)
            hout = self.block(h.body, hst)
            outs = self.join(outs, hout)
        if s.finalbody:
            # abrupt completions (exceptions, returns inside the try) pass
            # through the finally body too: analysed for recording purposes
            abrupt = fr.all_exc
            if self.returns is not saved_returns:
                abrupt = self.join(abrupt, self.returns)
            if abrupt is not None:
                self.d.in_abrupt_finally = getattr(self.d, 'in_abrupt_finally', 0) + 1
                try:
                    self.block(s.finalbody, abrupt)
                finally:
                    self.d.in_abrupt_finally -= 1
            outs = self.block(s.finalbody, outs)
        return outs

    def do_Match(self, s, st):   # not used by petl
        out = None
        for c in s.cases:
            out = self.join(out, self.block(c.body, st))
        return self.join(out, st)


class BaseDomain(object):
    """Default (trivial) domain: one state, nothing raises."""

    def entry_state(self):
        return {}

    def join(self, a, b):
        return a

    def equal(self, a, b):
        return a == b

    def widen(self, a):
        return a

    def may_raise(self, s, st):
        return set()

    def may_raise_expr(self, e, st):
        return set()

    def may_raise_for(self, s, st):
        return set()

    def exec_simple(self, s, st):
        return st

    def exec_def(self, s, st):
        return st

    def exec_return(self, s, st):
        return st

    def exec_raise(self, s, st):
        return st

    def exec_test(self, e, st):
        return st

    def assume(self, test, st, truth):
        return st

    def enter_for(self, s, st):
        return st

    def bind_for(self, s, st):
        return st

    def exit_for(self, s, init, iterated, head):
        return head

    def enter_with(self, item, st):
        return st

    def exit_with(self, s, st):
        return st

    def enter_handler(self, h, st):
        return st


def parent_map(fn_node):
    """child id -> parent node, for every node inside the function (own scope
    and nested scopes alike)."""
    pm = {}
    for n in ast.walk(fn_node):
        for c in ast.iter_child_nodes(n):
            pm[id(c)] = n
    return pm


def enclosing(pm, node, stop=None):
    """Yield (parent, child) pairs walking outwards from node."""
    cur = node
    while id(cur) in pm:
        p = pm[id(cur)]
        yield p, cur
        if p is stop:
            return
        cur = p


def in_try_catching(pm, node, kind, fn_node):
    """Is `node` inside the *body* of a try (within fn_node's own scope) whose
    handlers must catch `kind`?"""
    for p, c in enclosing(pm, node, stop=fn_node):
        if isinstance(p, (ast.FunctionDef, ast.AsyncFunctionDef, ast.Lambda)) and p is not fn_node:
            return False
        if isinstance(p, ast.Try) and any(c is b for b in p.body):
            for h in p.handlers:
                must, _ = catches(handler_types(h), kind)
                if must:
                    return True
    return False
