"""Which parameters / view attributes are *tables*, and how much of a table a
function reads when it is called (nothing / header only / data rows)."""
from __future__ import annotations

import ast

from .absval import UNDEF, iter_state
from .rules.common import analysed

NONE_, HEADER, DATA = 0, 1, 2
LEVEL_NAMES = {0: 'none', 1: 'header', 2: 'data'}


def sources_of(v, bounded_ok=False):
    """Names of the table-like things a value stands for: parameter names,
    'self.attr', and 'p[]' for an element of container parameter p."""
    out = set()
    for a in v:
        k = a[0]
        if k == 'ARG':
            out.add(a[1])
        elif k == 'SELFATTR':
            out.add('self.' + a[1])
        elif k == 'SELF':
            out.add('self')
        elif k in ('TABLE', 'DATA', 'GROUPSRC'):
            if not a[1].startswith(('row:', '?')):
                out.add(a[1])
        elif k == 'ITER':
            if a[1] and not a[1].startswith(('gen:', 'local', 'merge', '?', 'bounded:', 'row:', 'mat:')):
                out.add(a[1])
        elif k in ('ROW', 'HDR'):
            out.add(a[1] + '[]')
    return out


def map_source(p, actual):
    """Caller-side names for the callee-side source name p ('q' or 'q[]')."""
    elem = p.endswith('[]')
    base = p[:-2] if elem else p
    if base not in actual:
        return set()
    out = set()
    for s in sources_of(actual[base][0]):
        if elem:
            out.add(s + '[]')
        else:
            out.add(s)
    if elem:
        # the actual may be a fresh container of tables: its elements
        from .absval import elements_of
        for a in actual[base][0]:
            if a[0] == 'FRESH':
                out |= sources_of(a[3])
    return {s[:-4] + '[]' if s.endswith('[][]') else s for s in out}


class TableInfo(object):
    def __init__(self, ctx):
        self.ctx = ctx
        self._tp = {}
        self._tp_busy = set()
        self._reads = {}
        self._reads_busy = set()
        self._attr_tables = {}

    # ------------------------------------------------------------ table params
    def table_sources(self, fn):
        """Set of names ('p', 'self.a', 'p[]') used as tables by fn, directly
        or through resolved petl callees."""
        r = self._tp.get(fn)
        if r is not None:
            return r
        if fn in self._tp_busy:
            return set()
        self._tp_busy.add(fn)
        try:
            out = set()
            fa, events = analysed(self.ctx, fn)
            for ev in events:
                if ev.kind == 'iter':
                    out |= sources_of(ev.info['arg'])
                elif ev.kind == 'headerread':
                    out |= sources_of(ev.info['arg'])
                elif ev.kind == 'call':
                    for callee, actual in self._callees(fn, ev):
                        ct = self.table_sources(callee) if callee.name != '__init__' else \
                            self.ctor_table_params(callee)
                        for p in ct:
                            out |= map_source(p, actual)
            # a name whose *elements* are used as tables is a container of tables
            containers = {s[:-2] for s in out if s.endswith('[]')}
            out = {s for s in out if s not in containers}
            # an attribute the constructor initialises with a container it creates itself (self.cache = list()) is the
            # view's own memo, not an input table, however it is iterated
            if fn.cls is not None:
                out -= self._own_containers(fn.cls)
            self._tp[fn] = out
            return out
        finally:
            self._tp_busy.discard(fn)

    def _own_containers(self, cls):
        r = self.__dict__.setdefault('_ownc', {}).get(cls)
        if r is None:
            r = set()
            import ast as _ast
            for c in self.ctx.res.mro(cls):
                init = c.methods.get('__init__')
                if init is None:
                    continue
                from .loader import own_nodes as _own, norm as _norm
                # the constructor and the methods it calls on self (self.clearcache())
                todo, seen_m = [init], set()
                nodes = []
                while todo:
                    m0 = todo.pop()
                    if m0 in seen_m:
                        continue
                    seen_m.add(m0)
                    for n in _own(m0.node):
                        nodes.append(n)
                        if isinstance(n, _ast.Call) and isinstance(n.func, _ast.Attribute) and \
                                isinstance(n.func.value, _ast.Name) and n.func.value.id == 'self':
                            m1 = self.ctx.res.lookup_method(cls, n.func.attr)
                            if m1 is not None and len(seen_m) < 6:
                                todo.append(m1)
                for n in nodes:
                    if isinstance(n, _ast.Assign) and len(n.targets) == 1 and isinstance(n.targets[0], _ast.Attribute) \
                            and isinstance(n.targets[0].value, _ast.Name) and n.targets[0].value.id == 'self':
                        v = n.value
                        fresh = isinstance(v, (_ast.List, _ast.Dict, _ast.Set)) or \
                            (isinstance(v, _ast.Call) and _norm(v.func) in ('list', 'dict', 'set', 'OrderedDict', 'deque')
                             and not v.args)
                        if fresh:
                            r.add('self.' + n.targets[0].attr)
            self._ownc[cls] = r
        return r

    def _callees(self, fn, ev):
        """(callee FunctionInfo, {param: (value, node)}) for a 'call' event."""
        from .calls import _bind_actuals, _is_bound_call
        e = ev.node
        out = []
        for nm in ev.info['names']:
            if not nm.startswith('petl.') or ':' not in nm:
                continue
            mod, _, q = nm.partition(':')
            m = self.ctx.project.modules.get(mod)
            if m is None:
                continue
            callee = None
            bound = False
            if q in m.classes:
                callee = self.ctx.res.lookup_method(m.classes[q], '__init__')
                bound = True
            else:
                callee = m.functions.get(q)
                if callee is not None:
                    fa = self.ctx.an.analysis(fn)
                    bound = _is_bound_call(fa, e, callee)
            if callee is None:
                continue
            args = ev.info['args']
            kw = ev.info['kw']
            actual = _bind_actuals(callee, e, args, kw, bound)
            out.append((callee, actual))
        return out

    def attr_tables(self, cls):
        """'self.a' names used as tables by any method of cls (or its bases)."""
        r = self._attr_tables.get(cls)
        if r is None:
            r = set()
            for c in self.ctx.res.mro(cls):
                for m in c.methods.values():
                    if m.name == '__init__':
                        continue
                    r |= {s for s in self.table_sources(m) if s.startswith('self.')}
            self._attr_tables[cls] = r
        return r

    def ctor_table_params(self, init):
        """Parameters of a view __init__ that end up in a table attribute."""
        key = ('ctor', init)
        r = self._tp.get(key)
        if r is not None:
            return r
        out = set()
        if init.cls is None:
            return out
        fa, events = analysed(self.ctx, init)
        at = self.attr_tables(init.cls)
        for ev in events:
            if ev.kind == 'selfstore':
                nm = 'self.' + ev.info['attr']
                if nm in at or (nm + '[]') in at:
                    for s in sources_of(ev.info['value']):
                        if not s.startswith('self'):
                            out.add(s if nm in at else s + '[]')
                    if nm in at:
                        # a materialised copy of a parameter's rows stored as the table
                        for a in ev.info['value']:
                            if a[0] == 'FRESH':
                                for b in a[3]:
                                    if b[0] in ('ROW', 'HDR') and not b[1].startswith('self'):
                                        out.add(b[1])
        # constructor may itself use parameters as tables (e.g. natural key)
        out |= {s for s in self.table_sources(init) if not s.startswith('self')}
        containers = {s[:-2] for s in out if s.endswith('[]')}
        out = {s for s in out if s not in containers}
        out = {s[:-2] if s.endswith('[][]') else s for s in out}
        self._tp[key] = out
        return out

    # ------------------------------------------------------------------ reads
    def reads(self, fn):
        """{source name: level} -- how much of each table-like source the
        function reads *when called* (a generator function reads nothing until
        iterated)."""
        r = self._reads.get(fn)
        if r is not None:
            return r
        if fn in self._reads_busy:
            return {}
        if fn.is_generator:
            self._reads[fn] = {}
            return {}
        self._reads_busy.add(fn)
        try:
            out = {}

            def bump(srcs, lvl, why):
                for s in srcs:
                    if out.get(s, (0, None))[0] < lvl:
                        out[s] = (lvl, why)

            fa, events = analysed(self.ctx, fn)
            for ev in events:
                k = ev.kind
                if k == 'consume':
                    v = ev.info['arg']
                    if v is None:
                        continue
                    if ev.info['how'] == 'len' and not any(a[0] in ('ITER', 'TABLE', 'DATA', 'ARG', 'SELFATTR', 'SELF')
                                                           for a in v):
                        continue
                    bump(sources_of(v), DATA, ev)
                elif k == 'for':
                    bump(sources_of(ev.info['iter']), DATA, ev)
                elif k == 'truthtest':
                    # truth value of a table = IterContainer.__len__ = full scan
                    ts = self.table_sources(fn)
                    if fn.name == '__init__' and fn.cls is not None:
                        ts = ts | self.ctor_table_params(fn)
                    bump({s for s in sources_of(ev.info['arg']) if s in ts}, DATA, ev)
                elif k == 'render':
                    # str()/repr()/'%r' % of a table = Table.__repr__ = look() = reads the header and data rows
                    ts = self.table_sources(fn)
                    if fn.name == '__init__' and fn.cls is not None:
                        ts = ts | self.ctor_table_params(fn)
                    bump({s for s in sources_of(ev.info['arg']) if s in ts}, DATA, ev)
                elif k == 'next':
                    v = ev.info['iter']
                    lvl = HEADER if iter_state(v) == 'H' else DATA
                    bump(sources_of(v), lvl, ev)
                elif k == 'headerread':
                    bump(sources_of(ev.info['arg']), HEADER, ev)
                elif k == 'call':
                    for callee, actual in self._callees(fn, ev):
                        cr = self.reads(callee)
                        for p, (lvl, _) in cr.items():
                            bump(map_source(p, actual), lvl, ev)
            self._reads[fn] = out
            return out
        finally:
            self._reads_busy.discard(fn)


def tableinfo(ctx):
    ti = ctx.__dict__.get('_tableinfo')
    if ti is None:
        ti = TableInfo(ctx)
        ctx._tableinfo = ti
    return ti
