"""Command line driver.  Exit codes: 0 held / 1 violation / 2 analysis error."""
from __future__ import annotations

import importlib
import json
import os
import sys
import traceback

from .loader import Project, AnalysisError
from .resolve import Resolver
from .absval import Analyzer
from .report import Report, VERIF

PROPS = ['C%02d' % i for i in range(1, 21)]


class Context(object):
    def __init__(self, root, prop, tier):
        self.root = root
        self.tier = tier
        self.project = Project(root)
        self.project.add_controls(os.path.join(VERIF, 'petlsa', 'controls'))
        self.res = Resolver(self.project)
        from . import inline, normalise
        self.peeled = normalise.apply(self.project) if not os.environ.get('PETLSA_NO_INLINE') else []
        self.inlined = inline.apply(self.project, self.res) if not os.environ.get('PETLSA_NO_INLINE') else (0, [])
        self.unaliased = normalise.apply_aliases(self.project) if not os.environ.get('PETLSA_NO_INLINE') else []
        if self.inlined[0] or self.unaliased:
            # resolution caches were filled while inlining: start from a clean resolver
            self.res = Resolver(self.project)
        self.an = Analyzer(self.project, self.res)
        self.report = Report(prop, tier, root)
        if self.inlined[0]:
            self.report.note('expanded %d function(s) by inlining helpers unknown to the rules: %s'
                             % (self.inlined[0], ', '.join(self.inlined[1])))
        if self.unaliased:
            self.report.note('wrote local aliases of view attributes back in: %s' % ', '.join(self.unaliased))
        if self.peeled:
            self.report.note('peeled the literal tail of chain(...) loops in: %s' % ', '.join(self.peeled))
        self._views = None

    @property
    def views(self):
        if self._views is None:
            from .views import ViewModel
            self._views = ViewModel(self)
        return self._views

    def functions(self, prefixes=None, controls=None):
        """Functions of the real package whose module name starts with one of
        `prefixes` (all when None), plus the control module(s) named.  Helpers
        that were inlined into their callers are judged there, not on their own."""
        away = set(self.inlined[1])
        return [f for f in self._functions(prefixes, controls) if f.fq not in away]

    def _functions(self, prefixes=None, controls=None):
        out = []
        for m in self.project.modules.values():
            if m.name.startswith('petl._controls'):
                if controls and m.name.split('.')[-1] in controls:
                    out.extend(m.functions.values())
                continue
            if prefixes is None or any(m.name == p or m.name.startswith(p + '.') or
                                       (p.endswith('*') and m.name.startswith(p[:-1]))
                                       for p in prefixes):
                out.extend(m.functions.values())
        return out

    def attempt(self, rule_fn, *args, **kwargs):
        """Run one rule; an AnalysisError inside it (vanished anchor, population floor) is recorded and the remaining
        rules still run, so that a violation another rule can see is not hidden behind exit 2."""
        try:
            return rule_fn(*args, **kwargs)
        except AnalysisError as e:
            self.report.errors.append(str(e))
            return None

    def need(self, cond, what):
        if not cond:
            raise AnalysisError(what)

    def floor(self, name, n, minimum):
        self.report.counts[name] = n
        if n < minimum:
            raise AnalysisError('population %s = %d fell below the floor %d confirmed by reading '
                                '(the rule would pass vacuously)' % (name, n, minimum))

    def check_controls(self, expected_bad_prefix='bad_', expected_good_prefix='good_'):
        """Every control function named bad_* must carry a violation, none
        named good_* may."""
        rep = self.report
        flagged = set()
        for o in rep.control_obligations:
            if o.status == 'violated':
                flagged.add((o.module, o.qualname.split('.')[0] if not o.qualname[0].isupper()
                             else o.qualname.split('.')[0]))
        return flagged


def run_property(prop, tier, root, write=True):
    modname = 'petlsa.rules.%s' % prop.lower()
    try:
        mod = importlib.import_module(modname)
    except ImportError as e:
        if modname in str(e):
            print('ANALYSIS-ERROR property=%s no rule module (property not claimed)' % prop)
            return 2
        raise
    ctx = Context(root, prop, tier)
    mod.run(ctx)
    if ctx.report.errors:
        # a rule lost its anchor: its controls cannot be expected to be flagged; the run ends with exit 1 if another
        # rule reported a violation and with exit 2 otherwise
        try:
            verify_controls(ctx, mod)
        except AnalysisError as e:
            ctx.report.errors.append(str(e))
    else:
        verify_controls(ctx, mod)
    if tier == 'thorough' and write and not os.environ.get('PETLSA_NO_VALIDATION'):
        # checker validation on scratch copies (self-test mutants + stored seeded changes): reported, not gated
        try:
            from .selftest import checker_validation
            cv = checker_validation(prop, root)
            ctx.report.extra['checker_validation'] = cv
            ctx.report.note('checker validation on scratch copies of the current tree: mutants %s, seeded changes %s'
                            % (cv['mutants'], cv['seeds']))
            print('%s thorough: checker validation on scratch copies: mutants %s; seeded changes %s' % (
                prop, cv['mutants'], cv['seeds']))
            from .selftest import historical_defects
            hd = historical_defects(prop, root)
            ctx.report.extra['historical_defects'] = hd
            if hd:
                print('%s thorough: defects repaired in petl, re-analysed on the tree before each fix: %s' % (prop, hd))
        except Exception as e:      # never let the validation harness decide the verdict
            ctx.report.note('checker validation skipped: %s' % e)
    seed = int(os.environ.get('VERIF_SEED', '0') or 0)
    return ctx.report.finish(seed=seed, write=write)


def verify_controls(ctx, mod):
    """Vacuity guard: the synthetic control module for this property must be
    flagged exactly at its bad_* definitions."""
    cname = getattr(mod, 'CONTROL', None)
    if not cname:
        return
    m = ctx.project.modules.get('petl._controls.' + cname)
    if m is None:
        raise AnalysisError('control module %s missing' % cname)
    flagged = set()
    for o in ctx.report.control_obligations:
        if o.status == 'violated':
            flagged.add(o.qualname.split('.')[0])
    expect_bad = set()
    expect_good = set()
    for q in list(m.functions) + list(m.classes):
        top = q.split('.')[0]
        low = top.lower()
        if low.startswith('bad'):
            expect_bad.add(top)
        elif low.startswith('good'):
            expect_good.add(top)
    missing = expect_bad - flagged
    wrong = expect_good & flagged
    if missing:
        raise AnalysisError('positive control(s) not flagged for %s: %s' % (ctx.report.prop, sorted(missing)))
    real_violations = [o for o in ctx.report.obligations if o.status == 'violated']
    if wrong and not real_violations:
        raise AnalysisError('passing twin(s) flagged for %s: %s' % (ctx.report.prop, sorted(wrong)))
    if wrong:
        # a twin that calls into the real package inherits a defect of the callee;
        # the real violation is reported, the twin is only noted
        ctx.report.note('passing twin(s) flagged together with real violations: %s' % sorted(wrong))
    ctx.report.counts['controls_bad_flagged'] = len(expect_bad)
    ctx.report.counts['controls_good_silent'] = len(expect_good)


def main(argv=None):
    argv = list(sys.argv[1:] if argv is None else argv)
    root = os.environ.get('PETLSA_ROOT', '/repo')
    if '--root' in argv:
        i = argv.index('--root')
        root = argv[i + 1]
        del argv[i:i + 2]
    write = True
    if '--no-write' in argv:
        argv.remove('--no-write')
        write = False
    if not argv:
        print(__doc__)
        return 2
    cmd = argv[0]
    try:
        if cmd == 'explain':
            from .explain import explain
            return explain(argv[1])
        if cmd == 'selftest':
            from .selftest import main as st_main
            return st_main(argv[1:], root)
        tier = argv[1] if len(argv) > 1 else os.environ.get('VERIF_TIER', 'quick')
        if tier not in ('quick', 'thorough'):
            tier = 'quick'
        if cmd == 'all':
            rc = 0
            for p in PROPS:
                if os.path.exists(os.path.join(VERIF, 'petlsa', 'rules', p.lower() + '.py')):
                    rc = max(rc, run_property(p, tier, root, write))
            return rc
        prop = cmd.upper()
        return run_property(prop, tier, root, write)
    except AnalysisError as e:
        print('ANALYSIS-ERROR %s' % e)
        return 2
    except Exception:
        traceback.print_exc()
        print('ANALYSIS-ERROR internal error in the checker (traceback above)')
        return 2


if __name__ == '__main__':
    sys.exit(main())
