"""Symbolic resolution of the "None means: use the global default" idiom.

A parameter is either None or a value the caller chose; the code turns it into
an effective value with None tests (`is None`, `is not None`, conditional
expressions, early returns in a small helper).  The evaluator runs the
relevant assignments for one scenario and answers with one of

    'NONE'    still None
    'USER'    the caller's value
    'CONFIG'  petl.config.<name>
    'CONST'   some literal

Anything it cannot follow raises Sym (reported as undecided by the rules).
No petl code is executed; only the AST is interpreted.
"""
from __future__ import annotations

import ast

from .loader import norm


class Sym(Exception):
    pass


class _Return(Exception):
    def __init__(self, v):
        self.v = v


def is_none_test(t):
    """`X is None` -> (X, True); `X is not None` -> (X, False)"""
    if isinstance(t, ast.Compare) and len(t.ops) == 1 and isinstance(t.comparators[0], ast.Constant) \
            and t.comparators[0].value is None:
        if isinstance(t.ops[0], ast.Is):
            return t.left, True
        if isinstance(t.ops[0], ast.IsNot):
            return t.left, False
    return None


class NoneDefault(object):
    def __init__(self, ctx, config_attr, depth=2):
        self.ctx = ctx
        self.config_attr = config_attr
        self.depth = depth

    # ------------------------------------------------------------ expressions
    def eval(self, e, env, fn=None, depth=0):
        n = norm(e)
        if n in env:
            return env[n]
        if isinstance(e, (ast.Attribute, ast.Name)) and (n.endswith('config.' + self.config_attr) or n == self.config_attr):
            return 'CONFIG'
        if isinstance(e, ast.Constant) and e.value is None:
            return 'NONE'
        if isinstance(e, ast.Constant):
            return 'CONST'          # a literal: neither the caller's value nor the global default
        if isinstance(e, ast.IfExp):
            t = self.test(e.test, env, fn, depth)
            if t is None:
                a, b = self.eval(e.body, env, fn, depth), self.eval(e.orelse, env, fn, depth)
                if a == b:
                    return a
                raise Sym('`%s` depends on something else than the None test' % n)
            return self.eval(e.body if t else e.orelse, env, fn, depth)
        if isinstance(e, ast.BoolOp) and isinstance(e.op, ast.Or) and len(e.values) == 2:
            # `x or default` is NOT the None idiom (0 / '' / False are legal values): refuse
            raise Sym('`%s` replaces every falsy value, not only None' % n)
        if isinstance(e, ast.Call) and fn is not None and depth < self.depth:
            for r in self.ctx.res.resolve_call(fn, e):
                if r.kind == 'func' and r.target.cls is None:
                    g = r.target
                    params = list(g.posparams)
                    env2 = {}
                    for p, a in zip(params, e.args):
                        env2[p] = self.eval(a, env, fn, depth)
                    for k in e.keywords:
                        if k.arg in params:
                            env2[k.arg] = self.eval(k.value, env, fn, depth)
                    for p in params:
                        if p not in env2:
                            d = g.defaults.get(p)
                            if d is None:
                                raise Sym('argument %s of %s' % (p, g.name))
                            env2[p] = self.eval(d, {}, g, depth + 1)
                    try:
                        self.run(g.node.body, env2, set(env2), g, depth + 1, want_return=True)
                    except _Return as r2:
                        return r2.v
                    raise Sym('%s does not return' % g.name)
        raise Sym('cannot evaluate `%s`' % n)

    def test(self, t, env, fn=None, depth=0):
        """True / False, or None when the test also looks at something that is not tracked (both outcomes possible)"""
        if isinstance(t, ast.UnaryOp) and isinstance(t.op, ast.Not):
            v = self.test(t.operand, env, fn, depth)
            return None if v is None else (not v)
        if isinstance(t, ast.BoolOp):
            vals = [self.test(v, env, fn, depth) for v in t.values]
            if isinstance(t.op, ast.And):
                if any(v is False for v in vals):
                    return False
                return True if all(v is True for v in vals) else None
            if any(v is True for v in vals):
                return True
            return False if all(v is False for v in vals) else None
        nt = is_none_test(t)
        if nt is None:
            return None
        try:
            v = self.eval(nt[0], env, fn, depth)
        except Sym:
            return None
        return (v == 'NONE') == nt[1]

    # ------------------------------------------------------------- statements
    def run(self, stmts, env, names, fn=None, depth=0, want_return=False):
        """Execute the assignments to `names` (and the ladders around them) in place; a test that cannot be decided
        from the tracked values forks: the run continues with the first outcome that differs... -- to stay simple the
        caller gets ALL reachable final environments through `self.envs` (list), `env` itself holds the first."""
        envs = self._run(stmts, [env], names, fn, depth, want_return)
        self.envs = envs
        if envs and envs[0] is not env:
            env.clear()
            env.update(envs[0])
        return envs

    def _run(self, stmts, envs, names, fn, depth, want_return):
        for s in stmts:
            nxt = []
            for env in envs:
                if isinstance(s, ast.Assign) and len(s.targets) == 1 and norm(s.targets[0]) in names:
                    env[norm(s.targets[0])] = self.eval(s.value, env, fn, depth)
                    nxt.append(env)
                elif isinstance(s, ast.If):
                    relevant = any(isinstance(x, ast.Assign) and any(norm(t) in names for t in x.targets)
                                   for b in s.body + s.orelse for x in ast.walk(b)) or \
                        (want_return and any(isinstance(x, ast.Return) for b in s.body + s.orelse for x in ast.walk(b)))
                    if not relevant:
                        nxt.append(env)
                        continue
                    t = self.test(s.test, env, fn, depth)
                    if t is None:
                        nxt += self._run(s.body, [dict(env)], names, fn, depth, want_return)
                        nxt += self._run(s.orelse, [dict(env)], names, fn, depth, want_return)
                    else:
                        nxt += self._run(s.body if t else s.orelse, [env], names, fn, depth, want_return)
                elif isinstance(s, ast.Return) and want_return:
                    raise _Return(self.eval(s.value, env, fn, depth) if s.value is not None else 'NONE')
                else:
                    nxt.append(env)
            envs = nxt
        return envs
