"""Shape-independent evaluation of small decision ladders.

Rules about "what does this function do when <condition>" must not depend on
how the conditions are spelled.  This module evaluates tests three-valued
under a valuation of *canonical atoms* and enumerates the straight-line effect
sequences a block can execute under it:

  * an atom is the normalised text of a positive test; `x is not None`,
    `x != y`, `x not in y`, `not t` are the negations of `x is None`, `x == y`,
    `x in y`, `t`;
  * names bound once to a test expression (hoisted conditions such as
    `compound = isinstance(key, (list, tuple))`) are looked through;
  * tests the valuation does not determine fork the path (both outcomes).

Nothing is executed; the functions only walk the AST.
"""
from __future__ import annotations

import ast
import copy

from .loader import norm

_NEG = {ast.IsNot: ast.Is, ast.NotEq: ast.Eq, ast.NotIn: ast.In}


def positive(t):
    """(positive test node, negated?)"""
    neg = False
    while True:
        if isinstance(t, ast.UnaryOp) and isinstance(t.op, ast.Not):
            t = t.operand
            neg = not neg
            continue
        if isinstance(t, ast.Compare) and len(t.ops) == 1 and type(t.ops[0]) in _NEG:
            t = ast.Compare(left=t.left, ops=[_NEG[type(t.ops[0])]()], comparators=t.comparators)
            neg = not neg
            continue
        return t, neg


def atom(t):
    p, neg = positive(t)
    return norm(p), neg


def atoms_in(t, defs=None, depth=0):
    """canonical atoms (positive form) a test consists of"""
    defs = defs or {}
    p, _ = positive(t)
    if isinstance(p, ast.BoolOp):
        out = []
        for v in p.values:
            for a in atoms_in(v, defs, depth):
                if a not in out:
                    out.append(a)
        return out
    if isinstance(p, ast.Name) and p.id in defs and depth < 3:
        return atoms_in(defs[p.id], defs, depth + 1)
    return [norm(p)]


def tv(t, val, defs=None, depth=0):
    """True / False / None (undetermined) of test t under {atom text: bool}"""
    defs = defs or {}
    p, neg = positive(t)
    if isinstance(p, ast.BoolOp):
        vs = [tv(v, val, defs, depth) for v in p.values]
        if isinstance(p.op, ast.And):
            r = False if any(v is False for v in vs) else (True if all(v is True for v in vs) else None)
        else:
            r = True if any(v is True for v in vs) else (False if all(v is False for v in vs) else None)
    elif isinstance(p, ast.Name) and p.id in defs and depth < 3:
        r = tv(defs[p.id], val, defs, depth + 1)
    elif isinstance(p, ast.Constant):
        r = bool(p.value)
    else:
        r = val.get(norm(p))
    if r is None:
        return None
    return (not r) if neg else r


def test_defs(fn_node, allowed_names=None):
    """locals bound exactly once (anywhere in the function) to a test-like expression"""
    from .loader import own_nodes
    counts = {}
    for x in own_nodes(fn_node):
        if isinstance(x, ast.Assign) and len(x.targets) == 1 and isinstance(x.targets[0], ast.Name):
            counts.setdefault(x.targets[0].id, []).append(x.value)
        elif isinstance(x, (ast.AugAssign,)) and isinstance(x.target, ast.Name):
            counts.setdefault(x.target.id, []).extend([None, None])
        elif isinstance(x, (ast.For, ast.comprehension)):
            for y in ast.walk(x.target):
                if isinstance(y, ast.Name):
                    counts.setdefault(y.id, []).extend([None, None])
    out = {}
    for k, v in counts.items():
        if len(v) == 1 and isinstance(v[0], (ast.Compare, ast.BoolOp, ast.UnaryOp, ast.Call)):
            if isinstance(v[0], ast.Call) and norm(v[0].func) not in ('isinstance', 'callable', 'bool', 'hasattr'):
                continue
            if allowed_names is not None and not ({y.id for y in ast.walk(v[0]) if isinstance(y, ast.Name)} <= allowed_names):
                continue
            out[k] = v[0]
    return out


class Path(object):
    __slots__ = ('effects', 'kind', 'node', 'free')

    def __init__(self, effects, kind, node, free):
        self.effects = effects      # simple statements executed, in order
        self.kind = kind            # 'fall' | 'return' | 'raise' | 'continue' | 'break'
        self.node = node
        self.free = free            # undetermined tests met on the way: [(test node, outcome)]

    def texts(self):
        return [norm(s) for s in self.effects]


def paths(stmts, val, defs=None, enter_loops=False, limit=64):
    """All effect sequences of a statement list under the valuation."""
    defs = defs or {}
    done = []

    def go(todo, effects, free):
        if len(done) > limit:
            return
        for i, s in enumerate(todo):
            rest = todo[i + 1:]
            if isinstance(s, ast.If):
                t = tv(s.test, val, defs)
                if t is None:
                    go(list(s.body) + rest, list(effects), free + [(s.test, True)])
                    go(list(s.orelse) + rest, list(effects), free + [(s.test, False)])
                    return
                go(list(s.body if t else s.orelse) + rest, effects, free)
                return
            if isinstance(s, (ast.Return, ast.Raise, ast.Continue, ast.Break)):
                done.append(Path(effects, type(s).__name__.lower(), s, free))
                return
            if isinstance(s, ast.Try):
                # the normal path of the try body; handlers are separate ladders
                go(list(s.body) + list(s.orelse) + list(s.finalbody) + rest, effects, free)
                return
            if isinstance(s, ast.With):
                go(list(s.body) + rest, effects + [s], free)
                return
            if isinstance(s, (ast.For, ast.While)):
                if enter_loops:
                    go(list(s.body) + rest, effects, free)
                    return
                effects = effects + [s]
                continue
            if isinstance(s, ast.Pass) or (isinstance(s, ast.Expr) and isinstance(s.value, ast.Constant)):
                continue
            effects = effects + [s]
        done.append(Path(effects, 'fall', None, free))
    go(list(stmts), [], [])
    return done


def resolve(e, effects, depth=0):
    """expression e with the straight-line assignments of `effects` substituted (last binding of each name wins)"""
    env = {}
    for s in effects:
        if isinstance(s, ast.Assign) and len(s.targets) == 1 and isinstance(s.targets[0], ast.Name):
            env[s.targets[0].id] = _subst(s.value, env)
        elif isinstance(s, ast.Assign) and len(s.targets) == 1 and isinstance(s.targets[0], (ast.Tuple, ast.List)):
            # a, b = <sequence whose elements are visible>
            vals = unroll(_subst(s.value, env))
            tg = s.targets[0].elts
            if vals is not None and len(vals) == len(tg):
                for t, v in zip(tg, vals):
                    if isinstance(t, ast.Name):
                        env[t.id] = v
    return _subst(e, env)


class _S(ast.NodeTransformer):
    def __init__(self, env):
        self.env = env

    def visit_Name(self, node):
        if isinstance(node.ctx, ast.Load) and node.id in self.env:
            return copy.deepcopy(self.env[node.id])
        return node


def _subst(e, env):
    if not env:
        return e
    return ast.fix_missing_locations(_S(env).visit(copy.deepcopy(e)))


# ------------------------------------------------------------------ sequence algebra
class _Rename(ast.NodeTransformer):
    def __init__(self, names):
        self.names = names

    def visit_Name(self, node):
        if node.id in self.names:
            return ast.copy_location(ast.Name(id='_', ctx=node.ctx), node)
        return node


def seq_eval(e, env, val=None, defs=None):
    """Symbolic value of a sequence-building expression as a tuple of segments (source text, element map or None):
    list(X) / tuple(X) are X, comprehensions map their source, + concatenates, names are looked up in `env`
    (name -> segments).  Anything else is one opaque segment."""
    val = val or {}
    if isinstance(e, ast.Name):
        if e.id in env:
            return env[e.id]
        return ((e.id, None),)
    if isinstance(e, ast.Call) and isinstance(e.func, ast.Name) and e.func.id in ('list', 'tuple') and len(e.args) == 1 \
            and not e.keywords:
        return seq_eval(e.args[0], env, val, defs)
    if isinstance(e, ast.Call) and isinstance(e.func, ast.Name) and e.func.id in ('list', 'tuple') and not e.args:
        return ()
    if isinstance(e, (ast.ListComp, ast.GeneratorExp)) and len(e.generators) == 1 and not e.generators[0].ifs:
        g = e.generators[0]
        base = seq_eval(g.iter, env, val, defs)
        tnames = {x.id for x in ast.walk(g.target) if isinstance(x, ast.Name)}
        m = norm(ast.fix_missing_locations(_Rename(tnames).visit(copy.deepcopy(e.elt))))
        m = m if m != '_' else None
        # (a parenthesised element reads the same)
        out = []
        for src, mp in base:
            out.append((src, m if mp is None else ('%s . %s' % (m, mp) if m else mp)))
        return tuple(out)
    if isinstance(e, ast.BinOp) and isinstance(e.op, ast.Add):
        return seq_eval(e.left, env, val, defs) + seq_eval(e.right, env, val, defs)
    if isinstance(e, ast.IfExp):
        t = tv(e.test, val, defs)
        if t is not None:
            return seq_eval(e.body if t else e.orelse, env, val, defs)
        return ((norm(e), None),)
    if isinstance(e, (ast.List, ast.Tuple)):
        out = ()
        for x in e.elts:
            if isinstance(x, ast.Starred):
                out += seq_eval(x.value, env, val, defs)
            else:
                out += (('lit:' + norm(x), None),)
        return out
    return ((norm(e), None),)


def seq_exec(effects, env, val=None, defs=None):
    """run straight-line effects over the sequence environment (assignments, .extend / .append / +=)"""
    for s in effects:
        if isinstance(s, ast.Assign) and len(s.targets) == 1 and isinstance(s.targets[0], ast.Name):
            env[s.targets[0].id] = seq_eval(s.value, env, val, defs)
        elif isinstance(s, ast.For) and not s.orelse and len(s.body) == 1 and isinstance(s.body[0], ast.Expr) and \
                isinstance(s.body[0].value, ast.Call) and isinstance(s.body[0].value.func, ast.Attribute) and \
                s.body[0].value.func.attr == 'append' and isinstance(s.body[0].value.func.value, ast.Name) and \
                len(s.body[0].value.args) == 1:
            # for x in SRC: L.append(f(x))   ==   L += [f(x) for x in SRC]
            call = s.body[0].value
            nme = call.func.value.id
            comp = ast.ListComp(elt=call.args[0], generators=[ast.comprehension(target=s.target, iter=s.iter, ifs=[],
                                                                                 is_async=0)])
            env[nme] = env.get(nme, ((nme, None),)) + seq_eval(comp, env, val, defs)
        elif isinstance(s, ast.AugAssign) and isinstance(s.target, ast.Name) and isinstance(s.op, ast.Add):
            env[s.target.id] = seq_eval(s.target, env, val, defs) + seq_eval(s.value, env, val, defs)
        elif isinstance(s, ast.Expr) and isinstance(s.value, ast.Call) and isinstance(s.value.func, ast.Attribute) and \
                isinstance(s.value.func.value, ast.Name) and s.value.args:
            nme = s.value.func.value.id
            if s.value.func.attr == 'extend':
                env[nme] = env.get(nme, ((nme, None),)) + seq_eval(s.value.args[0], env, val, defs)
            elif s.value.func.attr == 'append':
                env[nme] = env.get(nme, ((nme, None),)) + (('lit:' + norm(s.value.args[0]), None),)
    return env


# ------------------------------------------------------------------ literal sequences
class _SubstNames(ast.NodeTransformer):
    def __init__(self, env):
        self.env = env

    def visit_Name(self, node):
        if isinstance(node.ctx, ast.Load) and node.id in self.env:
            return copy.deepcopy(self.env[node.id])
        return node


def unroll(e):
    """The element expressions of a sequence whose length is visible in the source, else None:
    a list / tuple display, list(...) / tuple(...) of one, a comprehension without conditions over such a sequence or
    over zip(...) of such sequences (targets substituted into the element)."""
    if isinstance(e, (ast.List, ast.Tuple)):
        if any(isinstance(x, ast.Starred) for x in e.elts):
            return None
        return list(e.elts)
    if isinstance(e, ast.Call) and isinstance(e.func, ast.Name) and e.func.id in ('list', 'tuple') and len(e.args) == 1 \
            and not e.keywords:
        return unroll(e.args[0])
    if isinstance(e, (ast.ListComp, ast.GeneratorExp)) and len(e.generators) == 1 and not e.generators[0].ifs:
        g = e.generators[0]
        it = g.iter
        if isinstance(it, ast.Call) and isinstance(it.func, ast.Name) and it.func.id in ('zip', 'izip') and it.args and \
                not it.keywords:
            cols = [unroll(a) for a in it.args]
            if any(c is None for c in cols) or len({len(c) for c in cols}) != 1:
                return None
            if not (isinstance(g.target, ast.Tuple) and len(g.target.elts) == len(cols) and
                    all(isinstance(t, ast.Name) for t in g.target.elts)):
                return None
            out = []
            for i in range(len(cols[0])):
                env = {t.id: cols[k][i] for k, t in enumerate(g.target.elts)}
                out.append(ast.fix_missing_locations(_SubstNames(env).visit(copy.deepcopy(e.elt))))
            return out
        seq = unroll(it)
        if seq is not None and isinstance(g.target, ast.Name):
            return [ast.fix_missing_locations(_SubstNames({g.target.id: x}).visit(copy.deepcopy(e.elt))) for x in seq]
    return None
