"""Shape-independent evaluation of small decision ladders.

Rules about "what does this function do when <condition>" must not depend on
how the conditions are spelled.  This module evaluates tests three-valued
under a valuation of *canonical atoms* and enumerates the straight-line effect
sequences a block can execute under it:

  * an atom is the normalised text of a positive test; `x is not None`,
    `x != y`, `x not in y`, `not t` are the negations of `x is None`, `x == y`,
    `x in y`, `t`;
  * names bound once to a test expression (hoisted conditions such as
    `compound = isinstance(key, (list, tuple))`) are looked through;
  * tests the valuation does not determine fork the path (both outcomes).

Nothing is executed; the functions only walk the AST.
"""
from __future__ import annotations

import ast
import copy

from .loader import norm

_NEG = {ast.IsNot: ast.Is, ast.NotEq: ast.Eq, ast.NotIn: ast.In}


def positive(t):
    """(positive test node, negated?)"""
    neg = False
    while True:
        if isinstance(t, ast.UnaryOp) and isinstance(t.op, ast.Not):
            t = t.operand
            neg = not neg
            continue
        if isinstance(t, ast.Compare) and len(t.ops) == 1 and type(t.ops[0]) in _NEG:
            t = ast.Compare(left=t.left, ops=[_NEG[type(t.ops[0])]()], comparators=t.comparators)
            neg = not neg
            continue
        return t, neg


def atom(t):
    p, neg = positive(t)
    return norm(p), neg


def atoms_in(t, defs=None, depth=0):
    """canonical atoms (positive form) a test consists of"""
    defs = defs or {}
    p, _ = positive(t)
    if isinstance(p, ast.BoolOp):
        out = []
        for v in p.values:
            for a in atoms_in(v, defs, depth):
                if a not in out:
                    out.append(a)
        return out
    if isinstance(p, ast.Name) and p.id in defs and depth < 3:
        return atoms_in(defs[p.id], defs, depth + 1)
    return [norm(p)]


_CMP = {ast.Eq: lambda a, b: a == b, ast.NotEq: lambda a, b: a != b, ast.Lt: lambda a, b: a < b, ast.LtE: lambda a, b: a <= b,
        ast.Gt: lambda a, b: a > b, ast.GtE: lambda a, b: a >= b, ast.Is: lambda a, b: a is b, ast.IsNot: lambda a, b: a is not b}


def _const_of(e, consts):
    """(known?, value) of an expression made of constants and names with a known constant value"""
    if isinstance(e, ast.Constant):
        return True, e.value
    if isinstance(e, ast.Name) and consts is not None and e.id in consts:
        return True, consts[e.id]
    if isinstance(e, ast.UnaryOp) and isinstance(e.op, ast.USub):
        k, v = _const_of(e.operand, consts)
        if k and isinstance(v, (int, float)):
            return True, -v
    return False, None


def tv(t, val, defs=None, depth=0, consts=None):
    """True / False / None (undetermined) of test t under {atom text: bool}; `consts` = locals whose constant value is
    known on this path (flags, three-way comparison results)"""
    defs = defs or {}
    if consts:
        if isinstance(t, ast.Compare) and len(t.ops) == 1 and type(t.ops[0]) in _CMP:
            ka, a = _const_of(t.left, consts)
            kb, b = _const_of(t.comparators[0], consts)
            if ka and kb:
                try:
                    return bool(_CMP[type(t.ops[0])](a, b))
                except TypeError:
                    return None
        if isinstance(t, ast.Name) and t.id in consts:
            return bool(consts[t.id])
        if isinstance(t, ast.UnaryOp) and isinstance(t.op, ast.Not):
            r0 = tv(t.operand, val, defs, depth, consts)
            return None if r0 is None else (not r0)
        if isinstance(t, ast.BoolOp):
            vs = [tv(v, val, defs, depth, consts) for v in t.values]
            if isinstance(t.op, ast.And):
                return False if any(v is False for v in vs) else (True if all(v is True for v in vs) else None)
            return True if any(v is True for v in vs) else (False if all(v is False for v in vs) else None)
    p, neg = positive(t)
    if isinstance(p, ast.BoolOp):
        vs = [tv(v, val, defs, depth) for v in p.values]
        if isinstance(p.op, ast.And):
            r = False if any(v is False for v in vs) else (True if all(v is True for v in vs) else None)
        else:
            r = True if any(v is True for v in vs) else (False if all(v is False for v in vs) else None)
    elif isinstance(p, ast.Name) and p.id in defs and depth < 3:
        r = tv(defs[p.id], val, defs, depth + 1)
    elif isinstance(p, ast.Constant):
        r = bool(p.value)
    else:
        r = val.get(norm(p))
    if r is None:
        return None
    return (not r) if neg else r


def test_defs(fn_node, allowed_names=None):
    """locals bound exactly once (anywhere in the function) to a test-like expression"""
    from .loader import own_nodes
    counts = {}
    for x in own_nodes(fn_node):
        if isinstance(x, ast.Assign) and len(x.targets) == 1 and isinstance(x.targets[0], ast.Name):
            counts.setdefault(x.targets[0].id, []).append(x.value)
        elif isinstance(x, (ast.AugAssign,)) and isinstance(x.target, ast.Name):
            counts.setdefault(x.target.id, []).extend([None, None])
        elif isinstance(x, (ast.For, ast.comprehension)):
            for y in ast.walk(x.target):
                if isinstance(y, ast.Name):
                    counts.setdefault(y.id, []).extend([None, None])
    out = {}
    for k, v in counts.items():
        if len(v) == 1 and isinstance(v[0], (ast.Compare, ast.BoolOp, ast.UnaryOp, ast.Call)):
            if isinstance(v[0], ast.Call) and norm(v[0].func) not in ('isinstance', 'callable', 'bool', 'hasattr'):
                continue
            if allowed_names is not None and not ({y.id for y in ast.walk(v[0]) if isinstance(y, ast.Name)} <= allowed_names):
                continue
            out[k] = v[0]
    return out


class Path(object):
    __slots__ = ('effects', 'kind', 'node', 'free')

    def __init__(self, effects, kind, node, free):
        self.effects = effects      # simple statements executed, in order
        self.kind = kind            # 'fall' | 'return' | 'raise' | 'continue' | 'break'
        self.node = node
        self.free = free            # undetermined tests met on the way: [(test node, outcome)]

    def texts(self):
        return [norm(s) for s in self.effects]


def paths(stmts, val, defs=None, enter_loops=False, limit=64, track=False, call_value=None):
    """All effect sequences of a statement list under the valuation.  With track=True locals that are assigned a
    constant (flags, codes) are followed along each path and decide the tests on them; call_value(call node, val)
    may give the constant a call is known to return under the valuation (a three-way comparison helper)."""
    defs = defs or {}
    done = []

    def bind(s, consts, val):
        """consts after the simple statement s"""
        if not track or not isinstance(s, (ast.Assign, ast.AugAssign)):
            return consts
        out = dict(consts)
        if isinstance(s, ast.AugAssign):
            if isinstance(s.target, ast.Name):
                out.pop(s.target.id, None)
            return out
        pairs = []
        for tgt in s.targets:
            if isinstance(tgt, ast.Name):
                pairs.append((tgt, s.value))
            elif isinstance(tgt, (ast.Tuple, ast.List)) and isinstance(s.value, (ast.Tuple, ast.List)) and \
                    len(tgt.elts) == len(s.value.elts):
                pairs.extend(zip(tgt.elts, s.value.elts))
            elif isinstance(tgt, (ast.Tuple, ast.List)):
                for x in ast.walk(tgt):
                    if isinstance(x, ast.Name):
                        out.pop(x.id, None)
        for tgt, v in pairs:
            if not isinstance(tgt, ast.Name):
                continue
            k, c = _const_of(v, consts)
            if not k and isinstance(v, ast.Call) and call_value is not None:
                r = call_value(v, val)
                if r is not None:
                    k, c = True, r[0]
            if not k and isinstance(v, ast.Compare) or isinstance(v, (ast.BoolOp, ast.UnaryOp)):
                r = tv(v, val, defs, 0, consts)
                if r is not None:
                    k, c = True, r
            if k:
                out[tgt.id] = c
            else:
                out.pop(tgt.id, None)
        return out

    def implied(test, outcome, v, consts):
        """atoms whose value follows from `test` having had this outcome (so that a later test on the same atom is not
        forked into an infeasible path)"""
        out = {}
        p, neg = positive(test)
        want = (not outcome) if neg else outcome
        if isinstance(p, ast.BoolOp):
            vals = [tv(x, v, defs, 0, consts if track else None) for x in p.values]
            if isinstance(p.op, ast.And) and want:
                for x in p.values:
                    out.update(implied(x, True, v, consts))
            elif isinstance(p.op, ast.Or) and not want:
                for x in p.values:
                    out.update(implied(x, False, v, consts))
            elif isinstance(p.op, ast.And) and not want:
                unknown = [x for x, r in zip(p.values, vals) if r is None]
                if len(unknown) == 1 and all(r is True for r in vals if r is not None):
                    out.update(implied(unknown[0], False, v, consts))
            elif isinstance(p.op, ast.Or) and want:
                unknown = [x for x, r in zip(p.values, vals) if r is None]
                if len(unknown) == 1 and all(r is False for r in vals if r is not None):
                    out.update(implied(unknown[0], True, v, consts))
            return out
        if isinstance(p, ast.Name) and p.id in defs:
            return implied(defs[p.id], want, v, consts)
        if isinstance(p, ast.Constant):
            return out
        out[norm(p)] = want
        return out

    def go(todo, effects, free, consts=None, v=None):
        consts = consts or {}
        v = val if v is None else v
        if len(done) > limit:
            return
        for i, s in enumerate(todo):
            rest = todo[i + 1:]
            if isinstance(s, ast.If):
                t = tv(s.test, v, defs, 0, consts if track else None)
                if t is None:
                    for outcome, branch in ((True, s.body), (False, s.orelse)):
                        v2 = dict(v)
                        v2.update(implied(s.test, outcome, v, consts))
                        go(list(branch) + rest, list(effects), free + [(s.test, outcome)], consts, v2)
                    return
                go(list(s.body if t else s.orelse) + rest, effects, free, consts, v)
                return
            if isinstance(s, (ast.Return, ast.Raise, ast.Continue, ast.Break)):
                done.append(Path(effects, type(s).__name__.lower(), s, free))
                return
            if isinstance(s, ast.Try):
                # the normal path of the try body; handlers are separate ladders
                go(list(s.body) + list(s.orelse) + list(s.finalbody) + rest, effects, free, consts, v)
                return
            if isinstance(s, ast.With):
                go(list(s.body) + rest, effects + [s], free, consts, v)
                return
            if isinstance(s, (ast.For, ast.While)):
                if enter_loops:
                    go(list(s.body) + rest, effects, free, consts, v)
                    return
                effects = effects + [s]
                if track:
                    # whatever the loop assigns is unknown afterwards
                    consts = {k: v for k, v in consts.items()
                              if not any(isinstance(x, ast.Name) and x.id == k and isinstance(x.ctx, ast.Store)
                                         for x in ast.walk(s))}
                continue
            if isinstance(s, ast.Pass) or (isinstance(s, ast.Expr) and isinstance(s.value, ast.Constant)):
                continue
            effects = effects + [s]
            consts = bind(s, consts, v)
        done.append(Path(effects, 'fall', None, free))
    go(list(stmts), [], [])
    return done


def resolve(e, effects, depth=0):
    """expression e with the straight-line assignments of `effects` substituted (last binding of each name wins)"""
    env = {}
    for s in effects:
        if isinstance(s, ast.Assign) and len(s.targets) == 1 and isinstance(s.targets[0], ast.Name):
            env[s.targets[0].id] = _subst(s.value, env)
        elif isinstance(s, ast.Assign) and len(s.targets) == 1 and isinstance(s.targets[0], (ast.Tuple, ast.List)):
            # a, b = <sequence whose elements are visible>
            vals = unroll(_subst(s.value, env))
            tg = s.targets[0].elts
            if vals is not None and len(vals) == len(tg):
                for t, v in zip(tg, vals):
                    if isinstance(t, ast.Name):
                        env[t.id] = v
        else:
            comp = append_loop_as_comprehension(s, env)
            if comp is not None:
                env[comp[0]] = comp[1]
    return _subst(e, env)


def append_loop_as_comprehension(s, env):
    """`for t in S: X.append(E)` with X known to be an empty list at that point  ==  X = [E for t in S].
    Returns (X, comprehension node) or None."""
    if not (isinstance(s, ast.For) and not s.orelse and len(s.body) == 1 and isinstance(s.body[0], ast.Expr) and
            isinstance(s.body[0].value, ast.Call)):
        return None
    c = s.body[0].value
    if not (isinstance(c.func, ast.Attribute) and c.func.attr == 'append' and isinstance(c.func.value, ast.Name) and
            len(c.args) == 1 and not c.keywords):
        return None
    x = c.func.value.id
    cur = env.get(x)
    empty = isinstance(cur, (ast.List, ast.Tuple)) and not cur.elts or \
        (isinstance(cur, ast.Call) and isinstance(cur.func, ast.Name) and cur.func.id == 'list' and not cur.args)
    if not empty:
        return None
    bound = {y.id for y in ast.walk(s.target) if isinstance(y, ast.Name)}
    inner = {k: v for k, v in env.items() if k not in bound and k != x}
    comp = ast.ListComp(elt=_subst(c.args[0], inner),
                        generators=[ast.comprehension(target=s.target, iter=_subst(s.iter, inner), ifs=[], is_async=0)])
    return x, ast.fix_missing_locations(ast.copy_location(comp, s))


class _S(ast.NodeTransformer):
    def __init__(self, env):
        self.env = env

    def visit_Name(self, node):
        if isinstance(node.ctx, ast.Load) and node.id in self.env:
            return copy.deepcopy(self.env[node.id])
        return node


def _subst(e, env):
    if not env:
        return e
    return ast.fix_missing_locations(_S(env).visit(copy.deepcopy(e)))


# ------------------------------------------------------------------ sequence algebra
class _Rename(ast.NodeTransformer):
    def __init__(self, names):
        self.names = names

    def visit_Name(self, node):
        if node.id in self.names:
            return ast.copy_location(ast.Name(id='_', ctx=node.ctx), node)
        return node


def seq_eval(e, env, val=None, defs=None):
    """Symbolic value of a sequence-building expression as a tuple of segments (source text, element map or None):
    list(X) / tuple(X) are X, comprehensions map their source, + concatenates, names are looked up in `env`
    (name -> segments).  Anything else is one opaque segment."""
    val = val or {}
    if isinstance(e, ast.Name):
        if e.id in env:
            return env[e.id]
        return ((e.id, None),)
    if isinstance(e, ast.Call) and isinstance(e.func, ast.Name) and e.func.id in ('list', 'tuple') and len(e.args) == 1 \
            and not e.keywords:
        return seq_eval(e.args[0], env, val, defs)
    if isinstance(e, ast.Call) and isinstance(e.func, ast.Name) and e.func.id in ('list', 'tuple') and not e.args:
        return ()
    if isinstance(e, (ast.ListComp, ast.GeneratorExp)) and len(e.generators) == 1 and not e.generators[0].ifs:
        g = e.generators[0]
        base = seq_eval(g.iter, env, val, defs)
        tnames = {x.id for x in ast.walk(g.target) if isinstance(x, ast.Name)}
        m = norm(ast.fix_missing_locations(_Rename(tnames).visit(copy.deepcopy(e.elt))))
        m = m if m != '_' else None
        # (a parenthesised element reads the same)
        out = []
        for src, mp in base:
            out.append((src, m if mp is None else ('%s . %s' % (m, mp) if m else mp)))
        return tuple(out)
    if isinstance(e, ast.BinOp) and isinstance(e.op, ast.Add):
        return seq_eval(e.left, env, val, defs) + seq_eval(e.right, env, val, defs)
    if isinstance(e, ast.IfExp):
        t = tv(e.test, val, defs)
        if t is not None:
            return seq_eval(e.body if t else e.orelse, env, val, defs)
        return ((norm(e), None),)
    if isinstance(e, (ast.List, ast.Tuple)):
        out = ()
        for x in e.elts:
            if isinstance(x, ast.Starred):
                out += seq_eval(x.value, env, val, defs)
            else:
                out += (('lit:' + norm(x), None),)
        return out
    return ((norm(e), None),)


def seq_exec(effects, env, val=None, defs=None):
    """run straight-line effects over the sequence environment (assignments, .extend / .append / +=)"""
    for s in effects:
        if isinstance(s, ast.Assign) and len(s.targets) == 1 and isinstance(s.targets[0], ast.Name):
            env[s.targets[0].id] = seq_eval(s.value, env, val, defs)
        elif isinstance(s, ast.For) and not s.orelse and len(s.body) == 1 and isinstance(s.body[0], ast.Expr) and \
                isinstance(s.body[0].value, ast.Call) and isinstance(s.body[0].value.func, ast.Attribute) and \
                s.body[0].value.func.attr == 'append' and isinstance(s.body[0].value.func.value, ast.Name) and \
                len(s.body[0].value.args) == 1:
            # for x in SRC: L.append(f(x))   ==   L += [f(x) for x in SRC]
            call = s.body[0].value
            nme = call.func.value.id
            comp = ast.ListComp(elt=call.args[0], generators=[ast.comprehension(target=s.target, iter=s.iter, ifs=[],
                                                                                 is_async=0)])
            env[nme] = env.get(nme, ((nme, None),)) + seq_eval(comp, env, val, defs)
        elif isinstance(s, ast.AugAssign) and isinstance(s.target, ast.Name) and isinstance(s.op, ast.Add):
            env[s.target.id] = seq_eval(s.target, env, val, defs) + seq_eval(s.value, env, val, defs)
        elif isinstance(s, ast.Expr) and isinstance(s.value, ast.Call) and isinstance(s.value.func, ast.Attribute) and \
                isinstance(s.value.func.value, ast.Name) and s.value.args:
            nme = s.value.func.value.id
            if s.value.func.attr == 'extend':
                env[nme] = env.get(nme, ((nme, None),)) + seq_eval(s.value.args[0], env, val, defs)
            elif s.value.func.attr == 'append':
                env[nme] = env.get(nme, ((nme, None),)) + (('lit:' + norm(s.value.args[0]), None),)
    return env


# ------------------------------------------------------------------ literal sequences
class _SubstNames(ast.NodeTransformer):
    def __init__(self, env):
        self.env = env

    def visit_Name(self, node):
        if isinstance(node.ctx, ast.Load) and node.id in self.env:
            return copy.deepcopy(self.env[node.id])
        return node


def unroll(e):
    """The element expressions of a sequence whose length is visible in the source, else None:
    a list / tuple display, list(...) / tuple(...) of one, a comprehension without conditions over such a sequence or
    over zip(...) of such sequences (targets substituted into the element)."""
    if isinstance(e, (ast.List, ast.Tuple)):
        if any(isinstance(x, ast.Starred) for x in e.elts):
            return None
        return list(e.elts)
    if isinstance(e, ast.Call) and isinstance(e.func, ast.Name) and e.func.id in ('list', 'tuple') and len(e.args) == 1 \
            and not e.keywords:
        return unroll(e.args[0])
    if isinstance(e, (ast.ListComp, ast.GeneratorExp)) and len(e.generators) == 1 and not e.generators[0].ifs:
        g = e.generators[0]
        it = g.iter
        if isinstance(it, ast.Call) and isinstance(it.func, ast.Name) and it.func.id in ('zip', 'izip') and it.args and \
                not it.keywords:
            cols = [unroll(a) for a in it.args]
            if any(c is None for c in cols) or len({len(c) for c in cols}) != 1:
                return None
            if not (isinstance(g.target, ast.Tuple) and len(g.target.elts) == len(cols) and
                    all(isinstance(t, ast.Name) for t in g.target.elts)):
                return None
            out = []
            for i in range(len(cols[0])):
                env = {t.id: cols[k][i] for k, t in enumerate(g.target.elts)}
                out.append(ast.fix_missing_locations(_SubstNames(env).visit(copy.deepcopy(e.elt))))
            return out
        seq = unroll(it)
        if seq is not None and isinstance(g.target, ast.Name):
            return [ast.fix_missing_locations(_SubstNames({g.target.id: x}).visit(copy.deepcopy(e.elt))) for x in seq]
    return None


class _PickBranch(ast.NodeTransformer):
    def __init__(self, val, defs):
        self.val = val
        self.defs = defs

    def visit_IfExp(self, node):
        self.generic_visit(node)
        t = tv(node.test, self.val, self.defs)
        if t is None:
            return node
        return node.body if t else node.orelse


def decide_ifexps(e, val, defs=None):
    """e with every conditional expression whose test the valuation decides replaced by the branch taken"""
    return ast.fix_missing_locations(_PickBranch(val, defs or {}).visit(copy.deepcopy(e)))
