# Synthetic controls for C02 (never imported; analysed next to the real package).
from itertools import islice
from petl.compat import next
from petl.util.base import Table, header


class BadEagerCtorView(Table):
    def __init__(self, source, field):
        self.source = list(source)      # reads every row at construction
        self.field = field

    def __iter__(self):
        it = iter(self.source)
        hdr = next(it)
        yield tuple(hdr)
        for row in it:
            yield tuple(row)


class GoodLazyCtorView(Table):
    def __init__(self, source, field):
        self.source = source
        self.field = field

    def __iter__(self):
        it = iter(self.source)
        hdr = next(it)
        yield tuple(hdr)
        for row in it:
            yield tuple(row)


class GoodHeaderOnlyCtorView(Table):
    def __init__(self, source, field=None):
        if field is None:
            field = header(source)[0]
        self.source = source
        self.field = field

    def __iter__(self):
        it = iter(self.source)
        hdr = next(it)
        yield tuple(hdr)
        for row in it:
            yield tuple(row)


def bad_validate_at_construction(table, field):
    n = 0
    for row in table:                   # "validates" the input eagerly
        n += 1
    return GoodLazyCtorView(table, field)


def good_plain_constructor(table, field):
    return GoodLazyCtorView(table, field)


def bad_drain_list(source):
    it = iter(source)
    hdr = next(it)
    yield tuple(hdr)
    for row in list(it):                # drains the source before the first row
        yield tuple(row)


def bad_drain_sorted(source):
    it = iter(source)
    hdr = next(it)
    yield tuple(hdr)
    rows = sorted(it)
    for row in rows:
        yield tuple(row)


def bad_drain_loop_without_yield(source):
    it = iter(source)
    hdr = next(it)
    yield tuple(hdr)
    rows = []
    for row in it:
        rows.append(row)
    for row in rows:
        yield tuple(row)


def good_stream_rows(source):
    it = iter(source)
    hdr = next(it)
    yield tuple(hdr)
    for row in it:
        yield tuple(row)


def good_stream_bounded_sample(source, n):
    it = iter(source)
    hdr = next(it)
    sample = list(islice(it, n))        # bounded look-ahead
    yield tuple(hdr)
    for row in sample:
        yield tuple(row)
    for row in it:
        yield tuple(row)


class BadReprView(Table):
    def __init__(self, table):
        self.table = table

    def __iter__(self):
        return iter(self.table)

    def __repr__(self):
        return '%d rows' % len(list(self))      # scans the whole table


class GoodReprView(Table):
    def __init__(self, table):
        self.table = table

    def __iter__(self):
        return iter(self.table)

    def __repr__(self):
        return ', '.join(map(repr, islice(self, 6)))


def bad_overflow_ignores_limit(table, limit):
    overflow = False
    if limit:
        table = list(table)
        if len(table) > limit + 1:
            overflow = True
            table = table[:limit + 1]
    return table, overflow


def good_overflow(table, limit):
    overflow = False
    if limit:
        table = list(islice(table, 0, limit + 2))
        if len(table) > limit + 1:
            overflow = True
            table = table[:-1]
    return table, overflow


class BadListIterView(Table):
    def __init__(self, source):
        self.source = source

    def __iter__(self):
        return [tuple(row) for row in self.source]


def bad_truthtest_in_constructor_path(table, field):
    if not table:                       # Table has no __bool__: __len__ scans every row
        return GoodLazyCtorView([], field)
    return GoodLazyCtorView(table, field)


def bad_drain_truthtest(source):
    it = iter(source)
    hdr = next(it)
    yield tuple(hdr)
    if source:                          # full scan through IterContainer.__len__
        for row in it:
            yield tuple(row)


def bad_logs_table_at_construction(table, field):
    import logging
    logging.getLogger(__name__).debug('cutting %r from %r' % (field, table))    # repr(table) = look() = reads rows
    return GoodLazyCtorView(table, field)


def good_logs_only_the_field(table, field):
    import logging
    logging.getLogger(__name__).debug('cutting %r' % (field,))
    return GoodLazyCtorView(table, field)


def bad_wrapper_forgets_presorted(table, key, presorted=False, buffersize=None, tempdir=None, cache=True):
    from petl.transform.dedup import distinct
    return distinct(table, key, buffersize=buffersize, tempdir=tempdir, cache=cache)


def good_wrapper_passes_presorted(table, key, presorted=False, buffersize=None, tempdir=None, cache=True):
    from petl.transform.dedup import distinct
    return distinct(table, key, presorted=presorted, buffersize=buffersize, tempdir=tempdir, cache=cache)
