# Synthetic controls for C16 (never imported; analysed next to the real package).
from petl.compat import next


def bad_pass_drops_rows(inner, batch):
    it = iter(inner)
    yield tuple(next(it))
    for n, row in enumerate(it):
        if n % batch == 0:
            continue                    # every batch-th row is lost
        yield row


def bad_pass_truncates_rows(inner, width):
    it = iter(inner)
    yield tuple(next(it))
    for row in it:
        yield tuple(row[:width])


def bad_pass_duplicates(inner):
    it = iter(inner)
    yield tuple(next(it))
    for row in it:
        yield row
        if len(row) == 0:
            yield row


def good_pass_through(inner):
    it = iter(inner)
    yield tuple(next(it))
    for n, row in enumerate(it):
        if n % 100 == 0:
            pass
        yield tuple(row)
