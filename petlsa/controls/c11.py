# Synthetic controls for C11 (never imported; analysed next to the real package).
from petl.util.base import Table
from petl.transform.sorts import sort
from petl.transform.dedup import distinct
from petl.transform.reductions import groupselectfirst
from petl.transform.setops import complement
from petl.util.lookups import lookup
import petl.config as config


def bad_drops_strategy(table, key, buffersize=None, tempdir=None, cache=True):
    return distinct(sort(table, key), key)           # both calls drop buffersize/tempdir/cache


def good_forwards_strategy(table, key, buffersize=None, tempdir=None, cache=True):
    return distinct(table, key, buffersize=buffersize, tempdir=tempdir, cache=cache)


def bad_interprets_buffersize(table, key, buffersize=None, tempdir=None, cache=True):
    return distinct(table, key, buffersize=buffersize or 1000, tempdir=tempdir, cache=cache)


def bad_default_buffersize(table, key, buffersize=1000, tempdir=None, cache=True):
    return distinct(table, key, buffersize=buffersize, tempdir=tempdir, cache=cache)


def bad_presorted_with_resorted_table(table, key, value, presorted=False, buffersize=None,
                                      tempdir=None, cache=True):
    return groupselectfirst(sort(table, value, buffersize=buffersize, tempdir=tempdir, cache=cache),
                            key, presorted=presorted, buffersize=buffersize, tempdir=tempdir, cache=cache)


def bad_unjustified_literal_presorted(a, b, buffersize=None, tempdir=None, cache=True):
    return complement(a, b, presorted=True, buffersize=buffersize, tempdir=tempdir, cache=cache)


def good_justified_literal_presorted(a, b, presorted=False, buffersize=None, tempdir=None, cache=True):
    if not presorted:
        a = sort(a, buffersize=buffersize, tempdir=tempdir, cache=cache)
        b = sort(b, buffersize=buffersize, tempdir=tempdir, cache=cache)
    return complement(a, b, presorted=True, buffersize=buffersize, tempdir=tempdir, cache=cache)


class BadAlwaysSortView(Table):
    def __init__(self, source, key, presorted=False, buffersize=None, tempdir=None, cache=True):
        self.source = sort(source, key, buffersize=buffersize, tempdir=tempdir, cache=cache)
        self.key = key

    def __iter__(self):
        return iter(self.source)


class BadInvertedPresortedView(Table):
    def __init__(self, source, key, presorted=False, buffersize=None, tempdir=None, cache=True):
        if not presorted:
            self.source = source
        else:
            self.source = sort(source, key, buffersize=buffersize, tempdir=tempdir, cache=cache)
        self.key = key

    def __iter__(self):
        return iter(self.source)


class BadWrongKeyView(Table):
    def __init__(self, left, right, lkey, rkey, presorted=False, buffersize=None, tempdir=None, cache=True):
        if presorted:
            self.left = left
            self.right = right
        else:
            self.left = sort(left, lkey, buffersize=buffersize, tempdir=tempdir, cache=cache)
            self.right = sort(right, lkey, buffersize=buffersize, tempdir=tempdir, cache=cache)
        self.lkey = lkey
        self.rkey = rkey

    def __iter__(self):
        return iter(self.left)


class GoodPresortedView(Table):
    def __init__(self, source, key, presorted=False, buffersize=None, tempdir=None, cache=True):
        if presorted:
            self.source = source
        else:
            self.source = sort(source, key, buffersize=buffersize, tempdir=tempdir, cache=cache)
        self.key = key

    def __iter__(self):
        return iter(self.source)


class BadSortDispatch(Table):
    def __init__(self, source, cache=True):
        self.source = source
        self.cache = cache
        self._memcache = None
        self._filecache = None

    def __iter__(self):
        if self._memcache is not None:              # cache flag ignored
            return self._iterfrommemcache()
        elif self.cache and self._filecache is not None:
            return self._iterfromfilecache()
        else:
            return self._iternocache()

    def _iterfrommemcache(self):
        return iter(self._memcache)

    def _iterfromfilecache(self):
        return iter(self._filecache)

    def _iternocache(self):
        return iter(self.source)


class GoodSortDispatch(Table):
    def __init__(self, source, cache=True):
        self.source = source
        self.cache = cache
        self._memcache = None
        self._filecache = None

    def __iter__(self):
        if not self.cache:
            return self._iternocache()
        if self._memcache is not None:
            return self._iterfrommemcache()
        if self._filecache is not None:
            return self._iterfromfilecache()
        return self._iternocache()

    def _iterfrommemcache(self):
        return iter(self._memcache)

    def _iterfromfilecache(self):
        return iter(self._filecache)

    def _iternocache(self):
        return iter(self.source)


class BadHashDispatch(Table):
    def __init__(self, left, right, key, cache=True):
        self.left = left
        self.right = right
        self.key = key
        self.cache = cache
        self.rlookup = None

    def __iter__(self):
        if self.cache or self.rlookup is None:      # rebuilds when cache is on, reuses when it is off
            self.rlookup = lookup(self.right, self.key)
        return iter(self.left)


class GoodHashDispatch(Table):
    def __init__(self, left, right, key, cache=True):
        self.left = left
        self.right = right
        self.key = key
        self.cache = cache
        self.rlookup = None

    def __iter__(self):
        if self.rlookup is None or not self.cache:
            self.rlookup = lookup(self.right, self.key)
        return iter(self.left)
