"""Synthetic twins for C08: merge / probe loops with one step of the table broken (bad_*) and correct re-spellings
(good_*).  The name says which table applies (complement / intersection / hashcomplement / hashintersection)."""
from collections import Counter

from petl.comparison import Comparable


def good_complement_sentinel_default(ta, tb, strict):
    ita = iter(ta)
    itb = iter(tb)
    ahdr = tuple(next(ita))
    next(itb)
    yield ahdr
    a = next(ita, None)
    if a is None:
        return
    a = tuple(a)
    b = next(itb, None)
    while True:
        if b is None or Comparable(a) < Comparable(tuple(b)):
            yield a
            try:
                a = tuple(next(ita))
            except StopIteration:
                return
        elif a == tuple(b):
            try:
                a = tuple(next(ita))
            except StopIteration:
                return
            if not strict:
                b = next(itb, None)
        else:
            b = next(itb, None)


def good_complement_drains_when_b_ends(ta, tb, strict):
    ita = (tuple(r) for r in iter(ta))
    itb = (tuple(r) for r in iter(tb))
    yield tuple(next(ita))
    next(itb)
    try:
        a = next(ita)
    except StopIteration:
        return
    try:
        b = next(itb)
    except StopIteration:
        yield a
        for r in ita:
            yield r
        return
    while True:
        if Comparable(a) < Comparable(b):
            yield a
            try:
                a = next(ita)
            except StopIteration:
                return
        elif a == b:
            try:
                a = next(ita)
            except StopIteration:
                return
            if not strict:
                try:
                    b = next(itb)
                except StopIteration:
                    yield a
                    for r in ita:
                        yield r
                    return
        else:
            try:
                b = next(itb)
            except StopIteration:
                yield a
                for r in ita:
                    yield r
                return


def bad_complement_strict_ignored(ta, tb, strict):
    ita = (tuple(r) for r in iter(ta))
    itb = (tuple(r) for r in iter(tb))
    yield tuple(next(ita))
    next(itb)
    try:
        a = next(ita)
    except StopIteration:
        return
    b = next(itb, None)
    while True:
        if b is None or Comparable(a) < Comparable(b):
            yield a
            try:
                a = next(ita)
            except StopIteration:
                break
        elif a == b:
            try:
                a = next(ita)
            except StopIteration:
                break
            try:
                b = next(itb)
            except StopIteration:
                b = None
        else:
            try:
                b = next(itb)
            except StopIteration:
                b = None


def bad_complement_yields_on_greater(ta, tb, strict):
    ita = (tuple(r) for r in iter(ta))
    itb = (tuple(r) for r in iter(tb))
    yield tuple(next(ita))
    next(itb)
    try:
        a = next(ita)
    except StopIteration:
        return
    b = next(itb, None)
    while True:
        if b is None or Comparable(a) < Comparable(b):
            yield a
            try:
                a = next(ita)
            except StopIteration:
                break
        elif a == b:
            try:
                a = next(ita)
            except StopIteration:
                break
            if not strict:
                b = next(itb, None)
        else:
            yield a
            b = next(itb, None)


def bad_complement_keeps_b_after_end(ta, tb, strict):
    ita = (tuple(r) for r in iter(ta))
    itb = (tuple(r) for r in iter(tb))
    yield tuple(next(ita))
    next(itb)
    try:
        a = next(ita)
    except StopIteration:
        return
    b = next(itb, None)
    while True:
        if b is None or Comparable(a) < Comparable(b):
            yield a
            try:
                a = next(ita)
            except StopIteration:
                break
        elif a == b:
            try:
                a = next(ita)
            except StopIteration:
                break
            if not strict:
                try:
                    b = next(itb)
                except StopIteration:
                    pass
        else:
            b = next(itb, None)


def good_intersection_guards(a, b):
    ita = iter(a)
    itb = iter(b)
    hdr = next(ita)
    next(itb)
    yield tuple(hdr)
    try:
        ra = tuple(next(ita))
        rb = tuple(next(itb))
        while True:
            if Comparable(ra) < Comparable(rb):
                ra = tuple(next(ita))
                continue
            if ra != rb:
                rb = tuple(next(itb))
                continue
            yield ra
            ra = tuple(next(ita))
            rb = tuple(next(itb))
    except StopIteration:
        return


def bad_intersection_keeps_b(a, b):
    ita = iter(a)
    itb = iter(b)
    hdr = next(ita)
    next(itb)
    yield tuple(hdr)
    try:
        ra = tuple(next(ita))
        rb = tuple(next(itb))
        while True:
            if Comparable(ra) < Comparable(rb):
                ra = tuple(next(ita))
            elif ra == rb:
                yield ra
                ra = tuple(next(ita))
            else:
                rb = tuple(next(itb))
    except StopIteration:
        pass


def bad_intersection_stop_escapes(a, b):
    ita = iter(a)
    itb = iter(b)
    hdr = next(ita)
    next(itb)
    yield tuple(hdr)
    try:
        ra = tuple(next(ita))
        rb = tuple(next(itb))
    except StopIteration:
        return
    while True:
        if Comparable(ra) < Comparable(rb):
            ra = tuple(next(ita))
        elif ra == rb:
            yield ra
            ra = tuple(next(ita))
            rb = tuple(next(itb))
        else:
            rb = tuple(next(itb))


def good_hashcomplement_inverted(a, b, strict):
    ita = iter(a)
    yield tuple(next(ita))
    itb = iter(b)
    next(itb)
    counts = Counter(tuple(r) for r in itb)
    for ar in ita:
        t = tuple(ar)
        if counts[t] <= 0:
            yield t
        elif not strict:
            counts[t] -= 1


def bad_hashcomplement_counts_header(a, b, strict):
    ita = iter(a)
    yield tuple(next(ita))
    itb = iter(b)
    counts = Counter(tuple(r) for r in itb)
    for ar in ita:
        t = tuple(ar)
        if counts[t] > 0:
            if not strict:
                counts[t] -= 1
        else:
            yield t


def bad_hashintersection_no_decrement(a, b):
    ita = iter(a)
    yield tuple(next(ita))
    itb = iter(b)
    next(itb)
    counts = Counter(tuple(r) for r in itb)
    for ar in ita:
        t = tuple(ar)
        if counts[t] > 0:
            yield t


def good_hashintersection_guard(a, b):
    ita = iter(a)
    yield tuple(next(ita))
    itb = iter(b)
    next(itb)
    counts = Counter(tuple(r) for r in itb)
    for ar in ita:
        t = tuple(ar)
        if not counts[t] > 0:
            continue
        yield t
        counts[t] -= 1


def good_hashintersection_stops_when_counts_used_up(a, b):
    ita = iter(a)
    yield tuple(next(ita))
    itb = iter(b)
    next(itb)
    counts = Counter(tuple(r) for r in itb)
    left = sum(counts.values())
    for ar in ita:
        if not left:
            break
        t = tuple(ar)
        if counts[t] > 0:
            yield t
            counts[t] -= 1
            left -= 1


def bad_hashintersection_distinct_budget(a, b):
    ita = iter(a)
    yield tuple(next(ita))
    itb = iter(b)
    next(itb)
    counts = Counter(tuple(r) for r in itb)
    left = len(counts)
    for ar in ita:
        if not left:
            break
        t = tuple(ar)
        if counts[t] > 0:
            yield t
            counts[t] -= 1
            left -= 1


def bad_hashcomplement_stops_when_counts_used_up(a, b, strict):
    ita = iter(a)
    yield tuple(next(ita))
    itb = iter(b)
    next(itb)
    counts = Counter(tuple(r) for r in itb)
    left = sum(counts.values())
    for ar in ita:
        if not left:
            break
        t = tuple(ar)
        if counts[t] > 0:
            if not strict:
                counts[t] -= 1
                left -= 1
        else:
            yield t
