# Synthetic controls for C18 (never imported; analysed next to the real package).
import os
import tempfile
from tempfile import NamedTemporaryFile
from petl.compat import pickle
from petl.util.base import Table
from petl.transform.sorts import _NamedTempFileDeleteOnGC, _iterchunk


def bad_mkstemp_unowned(rows):
    fd, path = tempfile.mkstemp()
    with os.fdopen(fd, 'wb') as f:
        for row in rows:
            pickle.dump(row, f)
    return path


def bad_owner_created_late(rows):
    chunkfiles = []
    with NamedTemporaryFile(delete=False, mode='wb') as f:
        for row in rows:
            pickle.dump(row, f, protocol=-1)     # a failure here orphans the file
        wrapper = _NamedTempFileDeleteOnGC(f.name)
        chunkfiles.append(wrapper)
    return chunkfiles


def good_owner_first(rows):
    chunkfiles = []
    with NamedTemporaryFile(delete=False, mode='wb') as f:
        wrapper = _NamedTempFileDeleteOnGC(f.name)
        for row in rows:
            pickle.dump(row, f, protocol=-1)
        chunkfiles.append(wrapper)
    return chunkfiles


class BadOwnerConditionalUnlink(object):
    def __init__(self, name):
        self.name = name
        self.keep = False

    def __del__(self):
        if not self.keep:
            os.unlink(self.name)


class GoodOwner(object):
    def __init__(self, name):
        self.name = name

    def delete(self, unlink=os.unlink):
        name = self.name
        try:
            unlink(name)
        except Exception:
            raise

    def __del__(self):
        self.delete()


_REGISTRY = []


class BadChunkOwnersRegistered(Table):
    def __init__(self, source):
        self.source = source
        self._filecache = None

    def __iter__(self):
        if self._filecache is not None:
            return self._fromcache(self._filecache)
        return self._fill()

    def _fill(self):
        chunkfiles = []
        with NamedTemporaryFile(delete=False, mode='wb') as f:
            wrapper = _NamedTempFileDeleteOnGC(f.name)
            _REGISTRY.append(wrapper)                 # module-level reference: never collected
            chunkfiles.append(wrapper)
        self._filecache = chunkfiles
        for row in _iterchunk(chunkfiles[0].name):
            yield row

    def _fromcache(self, filecache):
        names = [w.name for w in filecache]
        for fn in names:
            for row in _iterchunk(fn):
                yield row


class BadChunkReaderWithoutOwners(Table):
    def __init__(self, source):
        self.source = source
        self._filecache = None

    def __iter__(self):
        if self._filecache is not None:
            return self._fromcache([w.name for w in self._filecache])
        return self._fill()

    def _fill(self):
        chunkfiles = []
        with NamedTemporaryFile(delete=False, mode='wb') as f:
            wrapper = _NamedTempFileDeleteOnGC(f.name)
            chunkfiles.append(wrapper)
        self._filecache = chunkfiles
        for row in _iterchunk(chunkfiles[0].name):
            yield row

    def _fromcache(self, filenames):                  # only names: owners may vanish meanwhile
        for fn in filenames:
            for row in _iterchunk(fn):
                yield row


class GoodChunkView(Table):
    def __init__(self, source):
        self.source = source
        self._filecache = None

    def __iter__(self):
        if self._filecache is not None:
            return self._fromcache(self._filecache)
        return self._fill()

    def _fill(self):
        chunkfiles = []
        with NamedTemporaryFile(delete=False, mode='wb') as f:
            wrapper = _NamedTempFileDeleteOnGC(f.name)
            chunkfiles.append(wrapper)
        self._filecache = chunkfiles
        for row in _iterchunk(chunkfiles[0].name):
            yield row

    def _fromcache(self, filecache):
        names = [w.name for w in filecache]
        for fn in names:
            for row in _iterchunk(fn):
                yield row
