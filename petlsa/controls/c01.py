# Synthetic controls for C01 (never imported; analysed next to the real package).
import random
from itertools import islice
from petl.compat import next
from petl.util.base import Table


class BadReturnsStoredIterator(Table):
    def __init__(self, source):
        self.source = source
        self._it = None

    def __iter__(self):
        return self._it


class BadStoresIteratorAtConstruction(Table):
    def __init__(self, source):
        self.it = iter(source)          # one-shot

    def __iter__(self):
        for row in self.it:
            yield tuple(row)


class BadIsItsOwnIterator(Table):
    def __init__(self, source):
        self.source = source

    def __iter__(self):
        return iter(self.source)

    def __next__(self):
        raise StopIteration


class BadUnreviewedRowBuffer(Table):
    def __init__(self, source):
        self.source = source
        self.buf = []

    def __iter__(self):
        for row in self.source:
            self.buf = list(row)        # one buffer shared by all iterators
            yield self.buf


class BadLazyCacheRead(Table):
    _discipline = {'_memo': 'snapshot'}

    def __init__(self, source):
        self.source = source
        self._memo = None

    def __iter__(self):
        if self._memo is not None:
            return self._replay()
        return self._fill()

    def _replay(self):
        for row in self._memo:          # read when first advanced, not when created
            yield row

    def _fill(self):
        self._memo = None
        rows = list(self.source)
        self._memo = rows
        for row in rows:
            yield row


class GoodSnapshotCache(Table):
    _discipline = {'_memo': 'snapshot'}

    def __init__(self, source):
        self.source = source
        self._memo = None

    def __iter__(self):
        if self._memo is not None:
            return self._replay(self._memo)
        return self._fill()

    def _replay(self, memo):
        for row in memo:
            yield row

    def _fill(self):
        self._memo = None
        rows = list(self.source)
        self._memo = rows
        for row in rows:
            yield row


class BadUnguardedAppend(Table):
    _discipline = {'memo': 'append-hwm'}

    def __init__(self, inner):
        self.inner = inner
        self.memo = []

    def __iter__(self):
        n = 0
        for row in self.memo:
            n += 1
            yield row
        for row in islice(self.inner, n, None):
            self.memo.append(row)       # two interleaved iterators append twice
            n += 1
            yield row


class GoodHighWaterAppend(Table):
    _discipline = {'memo': 'append-hwm'}

    def __init__(self, inner):
        self.inner = inner
        self.memo = []

    def __iter__(self):
        n = 0
        for row in self.memo:
            n += 1
            yield row
        for row in islice(self.inner, n, None):
            if len(self.memo) == n:
                self.memo.append(row)
            n += 1
            yield row


class BadRepublish(Table):
    _discipline = {'_hdr': 'publish-once'}

    def __init__(self, source):
        self.source = source
        self._hdr = None

    def __iter__(self):
        it = iter(self.source)
        self._hdr = tuple(next(it))     # republished on every pass
        yield self._hdr
        for row in it:
            yield tuple(row)


class GoodPublishOnce(Table):
    _discipline = {'_hdr': 'publish-once'}

    def __init__(self, source):
        self.source = source
        self._hdr = None

    def __iter__(self):
        it = iter(self.source)
        first = next(it)
        if self._hdr is None:
            self._hdr = tuple(first)
        yield self._hdr
        for row in it:
            yield tuple(row)


class BadGlobalRandom(Table):
    def __init__(self, n, seed):
        self.n = n
        self.seed = seed

    def __iter__(self):
        random.seed(self.seed)
        yield ('x',)
        for _ in range(self.n):
            yield (random.random(),)


class GoodPrivateRandom(Table):
    def __init__(self, n, seed):
        self.n = n
        self.seed = seed

    def __iter__(self):
        rnd = random.Random(self.seed)
        yield ('x',)
        for _ in range(self.n):
            yield (rnd.random(),)


class BadHoistedSkipCount(Table):
    _discipline = {'memo': 'append-hwm'}

    def __init__(self, inner):
        self.inner = inner
        self.memo = []

    def __iter__(self):
        k = len(self.memo)              # taken before the memo is served
        n = 0
        for row in self.memo:
            n += 1
            yield row
        for row in islice(self.inner, k, None):
            if len(self.memo) == n:
                self.memo.append(row)
            n += 1
            yield row


class BadPerViewRandom(Table):
    def __init__(self, n, seed):
        self.n = n
        self.seed = seed
        self._rnd = random.Random()     # one generator shared by all iterators

    def __iter__(self):
        rnd = self._rnd
        rnd.seed(self.seed)
        yield ('x',)
        for _ in range(self.n):
            yield (rnd.random(),)


class BadSourceKeepsBuffer(object):
    def __init__(self, data):
        self.data = data
        self.buf = None

    def open(self, mode='rb'):
        from io import BytesIO
        if 'r' in mode:
            if self.buf is None:
                self.buf = BytesIO(self.data)
            self.buf.seek(0)
        else:
            self.buf = BytesIO()
        return self.buf


class GoodSourceFreshBuffer(object):
    def __init__(self, data):
        self.data = data
        self.buf = None

    def open(self, mode='rb'):
        from io import BytesIO
        if 'r' in mode:
            self.buf = BytesIO(self.data)
        elif self.buf is None:
            self.buf = BytesIO()       # append mode keeps what was written
        return self.buf
