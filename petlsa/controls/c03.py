# Synthetic controls for C03 (never imported; analysed next to the real package).
from petl.compat import next
from petl.util.base import Table


def bad_extend_source_row(source, value):
    it = iter(source)
    hdr = next(it)
    yield tuple(hdr) + ('new',)
    for row in it:
        row.extend([value])          # mutates the caller's row
        yield tuple(row)


def good_copy_then_extend(source, value):
    it = iter(source)
    hdr = next(it)
    yield tuple(hdr) + ('new',)
    for row in it:
        outrow = list(row)
        outrow.extend([value])
        yield tuple(outrow)


def bad_alias_then_store(source, idx, value):
    it = iter(source)
    hdr = next(it)
    yield tuple(hdr)
    for row in it:
        outrow = row                 # alias, not a copy
        outrow[idx] = value
        yield tuple(outrow)


def bad_header_insert(source, field):
    it = iter(source)
    hdr = next(it)
    hdr.insert(0, field)             # mutates the source header
    yield tuple(hdr)
    for row in it:
        yield tuple(row)


def bad_reused_buffer(source):
    it = iter(source)
    hdr = next(it)
    yield tuple(hdr)
    buf = []
    for row in it:
        del buf[:]                   # the list yielded last turn is changed
        buf.extend(row)
        yield buf


def good_fresh_buffer_each_turn(source):
    it = iter(source)
    hdr = next(it)
    yield tuple(hdr)
    for row in it:
        buf = []
        buf.extend(row)
        yield buf


def bad_sort_callers_list(rows):
    rows.sort()
    return rows


def good_sorted_copy(rows):
    rows = list(rows)
    rows.sort()
    return rows


def _fill_in_place(target, n):
    target.extend([None] * n)


def bad_pass_source_row_to_mutator(source):
    it = iter(source)
    hdr = next(it)
    yield tuple(hdr)
    for row in it:
        _fill_in_place(row, 2)
        yield tuple(row)


def good_pass_copy_to_mutator(source):
    it = iter(source)
    hdr = next(it)
    yield tuple(hdr)
    for row in it:
        out = list(row)
        _fill_in_place(out, 2)
        yield tuple(out)


class BadSpecMutatingView(Table):
    def __init__(self, source, spec):
        self.source = source
        self.spec = spec

    def __iter__(self):
        self.spec.append('x')        # the caller's spec list
        for row in self.source:
            yield tuple(row)


class GoodOwnStateView(Table):
    def __init__(self, source):
        self.source = source
        self.seen = []

    def __iter__(self):
        for row in self.source:
            self.seen.append(1)
            yield tuple(row)
