# Synthetic controls for C04 (never imported; analysed next to the real package).
import operator
from petl.compat import text_type, binary_type, numeric_types, next
from petl.comparison import Comparable, comparable_itemgetter
from petl.util.base import asindices
from petl.transform.selects import selectop


def _typestr(x):
    if isinstance(x, binary_type):
        return 'str'
    if isinstance(x, text_type):
        return 'unicode'
    return type(x).__name__


class BadComparableSwappedNone(object):
    """the two None tests swapped: None < None becomes true"""

    def __init__(self, obj):
        self.inner = obj
        if isinstance(obj, (list, tuple)):
            obj = tuple(Comparable(o) for o in obj)
        self.obj = obj

    def __lt__(self, other):
        obj = self.obj
        if not isinstance(other, Comparable):
            other = Comparable(other)
        other = other.obj
        if obj is None:
            return True
        if other is None:
            return False
        if isinstance(obj, numeric_types) and not isinstance(other, numeric_types):
            return True
        if not isinstance(obj, numeric_types) and isinstance(other, numeric_types):
            return False
        if isinstance(obj, text_type) and isinstance(other, binary_type):
            return False
        if isinstance(obj, binary_type) and isinstance(other, text_type):
            return True
        try:
            return obj < other
        except TypeError:
            return _typestr(obj) < _typestr(other)

    def __eq__(self, other):
        if not isinstance(other, Comparable):
            other = Comparable(other)
        return self.obj == other.obj


class GoodComparableReordered(object):
    """same ladder written differently (independent branches reordered, elif)"""

    def __init__(self, obj):
        self.inner = obj
        if isinstance(obj, (list, tuple)):
            obj = tuple(Comparable(o) for o in obj)
        self.obj = obj

    def __lt__(self, other):
        if not isinstance(other, Comparable):
            other = Comparable(other)
        mine = self.obj
        theirs = other.obj
        if theirs is None:
            return False
        elif mine is None:
            return True
        if isinstance(mine, binary_type) and isinstance(theirs, text_type):
            return True
        if isinstance(mine, text_type) and isinstance(theirs, binary_type):
            return False
        if not isinstance(mine, numeric_types) and isinstance(theirs, numeric_types):
            return False
        if isinstance(mine, numeric_types) and not isinstance(theirs, numeric_types):
            return True
        try:
            return mine < theirs
        except TypeError:
            return _typestr(mine) < _typestr(theirs)

    def __eq__(self, other):
        if not isinstance(other, Comparable):
            other = Comparable(other)
        return self.obj == other.obj


class BadDerivedOperators(object):
    def __le__(self, other):
        return self < other or self == other

    def __gt__(self, other):
        return not (self < other)          # true for equal values as well

    def __ge__(self, other):
        return not (self < other)


class GoodDerivedOperators(object):
    def __le__(self, other):
        return self == other or self < other

    def __gt__(self, other):
        return not (self < other) and not (self == other)

    def __ge__(self, other):
        return not self < other


class BadKeyedOnlyLt(object):
    def __lt__(self, other):
        return self.key < other.key


def bad_native_key_sort(rows, hdr, key):
    getkey = operator.itemgetter(*asindices(hdr, key))
    rows = list(rows)
    rows.sort(key=getkey)
    return rows


def good_comparable_key_sort(rows, hdr, key):
    getkey = comparable_itemgetter(*asindices(hdr, key))
    rows = list(rows)
    rows.sort(key=getkey)
    return rows


def bad_selector_unwrapped(table, field, value, complement=False):
    return selectop(table, field, value, operator.lt, complement=complement)


def good_selector_wrapped(table, field, value, complement=False):
    value = Comparable(value)
    return selectop(table, field, value, operator.lt, complement=complement)


def bad_raw_row_compare(table):
    it = iter(table)
    next(it)
    prev = next(it, None)
    for cur in it:
        if cur < prev:
            return False
        prev = cur
    return True
