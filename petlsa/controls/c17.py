# Synthetic controls for C17 (never imported; analysed next to the real package).
from petl.compat import next

SQL_TRUNCATE_QUERY = 'DELETE FROM %s'
SQL_INSERT_QUERY = 'INSERT INTO %s VALUES (%s)'


def bad_load_commit_in_finally(table, connection, tablename, commit=True, truncate=False):
    it = iter(table)
    hdr = next(it)
    cursor = connection.cursor()
    if truncate:
        truncatequery = SQL_TRUNCATE_QUERY % tablename
        cursor.execute(truncatequery)
    insertquery = SQL_INSERT_QUERY % (tablename, '?')
    try:
        cursor.executemany(insertquery, it)
    finally:
        cursor.close()
        if commit:
            connection.commit()


def bad_load_commit_after_truncate(table, connection, tablename, commit=True, truncate=False):
    it = iter(table)
    hdr = next(it)
    cursor = connection.cursor()
    if truncate:
        truncatequery = SQL_TRUNCATE_QUERY % tablename
        cursor.execute(truncatequery)
        cursor.close()
        if commit:
            connection.commit()
        cursor = connection.cursor()
    insertquery = SQL_INSERT_QUERY % (tablename, '?')
    cursor.executemany(insertquery, it)
    cursor.close()
    if commit:
        connection.commit()


def bad_load_swallows_failure(table, connection, tablename, commit=True, truncate=False):
    it = iter(table)
    hdr = next(it)
    cursor = connection.cursor()
    insertquery = SQL_INSERT_QUERY % (tablename, '?')
    try:
        cursor.executemany(insertquery, it)
    except Exception:
        pass
    cursor.close()
    if commit:
        connection.commit()


def bad_load_commit_per_row(table, connection, tablename, commit=True, truncate=False):
    it = iter(table)
    hdr = next(it)
    insertquery = SQL_INSERT_QUERY % (tablename, '?')
    for row in it:
        connection.execute(insertquery, row)
        if commit:
            connection.commit()


def good_load(table, connection, tablename, commit=True, truncate=False):
    it = iter(table)
    hdr = next(it)
    cursor = connection.cursor()
    if truncate:
        truncatequery = SQL_TRUNCATE_QUERY % tablename
        cursor.execute(truncatequery)
    insertquery = SQL_INSERT_QUERY % (tablename, '?')
    try:
        cursor.executemany(insertquery, it)
    finally:
        cursor.close()
    if commit:
        connection.commit()
