# Synthetic controls for C20 (never imported; analysed next to the real package).
from petl.compat import next
from petl.util.base import Table, asindices
from petl.comparison import comparable_itemgetter, Comparable
import itertools


def bad_bare_data_next(source):
    it = iter(source)
    hdr = next(it)
    yield tuple(hdr)
    first = next(it)            # no data rows -> StopIteration
    yield tuple(first)
    for row in it:
        yield tuple(row)


def good_guarded_data_next(source):
    it = iter(source)
    hdr = next(it)
    yield tuple(hdr)
    try:
        first = next(it)
    except StopIteration:
        return
    yield tuple(first)
    for row in it:
        yield tuple(row)


def good_default_data_next(source):
    it = iter(source)
    hdr = next(it)
    yield tuple(hdr)
    first = next(it, None)
    if first is not None:
        yield tuple(first)


def bad_sentinel_as_row(source):
    it = iter(source)
    hdr = next(it)
    yield tuple(hdr)
    previous = None
    for row in it:
        if previous is not None:
            yield tuple(previous)
        previous = row
    yield tuple(previous)        # None when there were no rows


def good_sentinel_tested(source):
    it = iter(source)
    hdr = next(it)
    yield tuple(hdr)
    previous = None
    for row in it:
        if previous is not None:
            yield tuple(previous)
        previous = row
    if previous is not None:
        yield tuple(previous)


def bad_none_sentinel_ordering(left, right, key):
    lit = iter(left)
    rit = iter(right)
    lhdr = next(lit)
    rhdr = next(rit)
    import operator
    getk = operator.itemgetter(*asindices(lhdr, key))
    lgit = itertools.groupby(lit, key=getk)
    rgit = itertools.groupby(rit, key=getk)
    lkval, rkval = None, None
    try:
        lkval, lgrp = next(lgit)
        rkval, rgrp = next(rgit)
    except StopIteration:
        pass
    if lkval > rkval:
        yield ()


def bad_zero_trip_division(table):
    it = iter(table)
    next(it)
    total = 0
    hits = 0
    for row in it:
        total += 1
        if row[0]:
            hits += 1
    return hits / total


def good_zero_trip_division(table):
    it = iter(table)
    next(it)
    total = 0
    hits = 0
    for row in it:
        total += 1
        if row[0]:
            hits += 1
    if total == 0:
        return 0.0
    return hits / total


def bad_keydomain_sentinel(left, right, key):
    lit = iter(left)
    rit = iter(right)
    lhdr = next(lit)
    rhdr = next(rit)
    getk = comparable_itemgetter(*asindices(lhdr, key))
    lgit = itertools.groupby(lit, key=getk)
    rgit = itertools.groupby(rit, key=getk)
    lgrp = []
    lkval, rkval = Comparable(None), Comparable(None)
    try:
        lkval, lgrp = next(lgit)
        rkval, rgrp = next(rgit)
    except StopIteration:
        pass
    if lkval > rkval:          # a pending None-key group equals the sentinel
        for row in lgrp:
            yield tuple(row)


def good_keydomain_sentinel(left, right, key):
    lit = iter(left)
    rit = iter(right)
    lhdr = next(lit)
    rhdr = next(rit)
    getk = comparable_itemgetter(*asindices(lhdr, key))
    lgit = itertools.groupby(lit, key=getk)
    rgit = itertools.groupby(rit, key=getk)
    lgrp = []
    nokey = Comparable(None)
    lkval, rkval = nokey, nokey
    try:
        lkval, lgrp = next(lgit)
        rkval, rgrp = next(rgit)
    except StopIteration:
        pass
    if lkval is not nokey and (rkval is nokey or lkval > rkval):
        for row in lgrp:
            yield tuple(row)


def bad_two_nexts_one_statement(left, right, key):
    lit = iter(left)
    rit = iter(right)
    lhdr = next(lit)
    rhdr = next(rit)
    getk = comparable_itemgetter(*asindices(lhdr, key))
    lgit = itertools.groupby(lit, key=getk)
    rgit = itertools.groupby(rit, key=getk)
    lgrp = []
    nokey = Comparable(None)
    lkval, rkval = nokey, nokey
    try:
        (lkval, lgrp), (rkval, rgrp) = next(lgit), next(rgit)   # left group lost if right is empty
    except StopIteration:
        pass
    if lkval is not nokey and (rkval is nokey or lkval > rkval):
        for row in lgrp:
            yield tuple(row)


def bad_delete_while_enumerating(iterables):
    iterators = [iter(i) for i in iterables]
    shortlist = []
    for i, it in enumerate(iterators):
        try:
            shortlist.append(next(it))
        except StopIteration:
            del iterators[i]            # the next iterator is skipped
    return iterators, shortlist


def good_collect_then_filter(iterables):
    iterators = []
    shortlist = []
    for iterable in iterables:
        it = iter(iterable)
        try:
            first = next(it)
            iterators.append(it)
            shortlist.append(first)
        except StopIteration:
            pass
    return iterators, shortlist
