# Synthetic controls for C19 (never imported; analysed next to the real package).
from petl.compat import next
from petl.util.base import Table
import petl.config as config


def bad_cell_truthiness_first(source, fn, failonerror, errorvalue):
    for row in source:
        try:
            val = fn(row)
        except Exception as e:
            if failonerror:                 # 'inline' is truthy: raised instead of delivered
                raise e
            elif failonerror == 'inline':
                val = e
            else:
                val = errorvalue
        yield (val,)


def good_cell_policy(source, fn, failonerror, errorvalue):
    for row in source:
        try:
            val = fn(row)
        except Exception as e:
            if failonerror == 'inline':
                val = e
            elif not failonerror:
                val = errorvalue
            else:
                raise e
        yield (val,)


def bad_row_errorvalue_swallowed(source, fn, failonerror):
    for row in source:
        try:
            out = fn(row)
            yield tuple(out)
        except Exception as e:
            if failonerror == 'inline':
                yield tuple([e])
            # True: silently dropped as well


def bad_row_consumed_outside_try(source, fn, failonerror):
    for row in source:
        try:
            out = fn(row)
        except Exception as e:
            if failonerror == 'inline':
                yield tuple([e])
            elif failonerror:
                raise e
        else:
            yield tuple(out)                # a lazy result fails here, unhandled


def good_row_policy(source, fn, failonerror):
    for row in source:
        try:
            out = fn(row)
            yield tuple(out)
        except Exception as e:
            if failonerror == 'inline':
                yield tuple([e])
            elif failonerror:
                raise e


class BadCtorForcesPolicy(Table):
    def __init__(self, source, failonerror=None, errorvalue=None):
        self.source = source
        if failonerror is None and errorvalue is not None:
            failonerror = False             # config default bypassed
        self.failonerror = (config.failonerror if failonerror is None else failonerror)
        self.errorvalue = errorvalue

    def __iter__(self):
        return iter(self.source)


class GoodCtor(Table):
    def __init__(self, source, failonerror=None, errorvalue=None):
        self.source = source
        if failonerror is None:
            self.failonerror = config.failonerror
        else:
            self.failonerror = failonerror
        self.errorvalue = errorvalue

    def __iter__(self):
        return iter(self.source)
