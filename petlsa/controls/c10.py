"""Synthetic twins for C10: run detectors with one transition wrong (bad_*) and correct re-spellings (good_*).  The
word after the first underscore names the operator whose specification applies."""
import operator


def good_duplicates_lookahead_flag(source, key):
    it = iter(source)
    hdr = next(it)
    yield tuple(hdr)
    getkey = operator.itemgetter(*key)
    prev = next(it, None)
    if prev is None:
        return
    open_run = False
    for row in it:
        if getkey(row) == getkey(prev):
            if not open_run:
                yield tuple(prev)
            yield tuple(row)
            open_run = True
        else:
            open_run = False
        prev = row


def bad_duplicates_flag_not_reset(source, key):
    it = iter(source)
    hdr = next(it)
    yield tuple(hdr)
    getkey = operator.itemgetter(*key)
    previous = None
    previous_yielded = False
    for row in it:
        if previous is None:
            previous = row
        else:
            if getkey(previous) == getkey(row):
                if not previous_yielded:
                    yield tuple(previous)
                    previous_yielded = True
                yield tuple(row)
            previous = row


def bad_duplicates_none_key_is_first_row(source, key):
    it = iter(source)
    hdr = next(it)
    yield tuple(hdr)
    getkey = operator.itemgetter(*key)
    kprev = None
    previous = None
    previous_yielded = False
    for row in it:
        kcurr = getkey(row)
        if kprev is not None:
            if kprev == kcurr:
                if not previous_yielded:
                    yield tuple(previous)
                    previous_yielded = True
                yield tuple(row)
            else:
                previous_yielded = False
        previous = row
        kprev = kcurr


def good_unique_sentinel_object(source, key):
    it = iter(source)
    hdr = next(it)
    yield tuple(hdr)
    getkey = operator.itemgetter(*key)
    nothing = object()
    prev = next(it, nothing)
    if prev is nothing:
        return
    alone = True
    for curr in it:
        differs = getkey(curr) != getkey(prev)
        if alone:
            if differs:
                yield tuple(prev)
        prev, alone = curr, differs
    if alone:
        yield tuple(prev)


def bad_unique_last_row_forgotten(source, key):
    it = iter(source)
    hdr = next(it)
    yield tuple(hdr)
    getkey = operator.itemgetter(*key)
    try:
        prev = next(it)
    except StopIteration:
        return
    prev_key = getkey(prev)
    prev_ne = True
    for curr in it:
        curr_key = getkey(curr)
        curr_ne = (curr_key != prev_key)
        if prev_ne and curr_ne:
            yield tuple(prev)
        prev = curr
        prev_key = curr_key
        prev_ne = curr_ne


def bad_unique_second_of_run(source, key):
    it = iter(source)
    hdr = next(it)
    yield tuple(hdr)
    getkey = operator.itemgetter(*key)
    try:
        prev = next(it)
    except StopIteration:
        return
    prev_key = getkey(prev)
    for curr in it:
        curr_key = getkey(curr)
        if curr_key != prev_key:
            yield tuple(prev)
        prev = curr
        prev_key = curr_key
    yield tuple(prev)


def good_distinct_counting_peeled(table, key, count):
    it = iter(table)
    hdr = next(it)
    getkey = operator.itemgetter(*key)
    if not count:
        yield tuple(hdr)
        last = object()
        for row in it:
            k = getkey(row)
            if k != last:
                yield tuple(row)
            last = k
        return
    yield tuple(hdr) + (count,)
    nothing = object()
    previous = next(it, nothing)
    if previous is nothing:
        return
    n = 1
    for row in it:
        if getkey(previous) == getkey(row):
            n += 1
        else:
            yield tuple(previous) + (n,)
            n = 1
            previous = row
    yield tuple(previous) + (n,)


def bad_distinct_count_starts_at_zero(table, key, count):
    it = iter(table)
    hdr = next(it)
    getkey = operator.itemgetter(*key)
    if not count:
        yield tuple(hdr)
        last = object()
        for row in it:
            k = getkey(row)
            if k != last:
                yield tuple(row)
            last = k
        return
    yield tuple(hdr) + (count,)
    nothing = object()
    previous = next(it, nothing)
    if previous is nothing:
        return
    n = 1
    for row in it:
        if getkey(previous) == getkey(row):
            n += 1
        else:
            yield tuple(previous) + (n,)
            n = 0
            previous = row
    yield tuple(previous) + (n,)


def good_isunique_plain(table, field):
    from petl.util.base import itervalues
    seen = set()
    for v in itervalues(table, field):
        if v not in seen:
            seen.add(v)
            continue
        return False
    return True


def bad_isunique_hashes(table, field):
    from petl.util.base import itervalues
    seen = set()
    for v in itervalues(table, field):
        if hash(v) in seen:
            return False
        seen.add(hash(v))
    return True
