# Synthetic controls for C13 (never imported; analysed next to the real package).
import operator
from petl.compat import next
from petl.comparison import Comparable
from petl.transform.selects import select, selectop


def bad_xor_equal_instead_of_xor(source, where, complement):
    it = iter(source)
    yield tuple(next(it))
    for row in it:
        if bool(where(row)) == complement:      # selection and complement swapped
            yield tuple(row)


def bad_xor_complement_ignored(source, where, complement):
    it = iter(source)
    yield tuple(next(it))
    for row in it:
        if where(row):
            yield tuple(row)


def good_xor_if_else(source, where, complement):
    it = iter(source)
    yield tuple(next(it))
    for row in it:
        if complement:
            if not where(row):
                yield tuple(row)
        else:
            if where(row):
                yield tuple(row)


def bad_selectlt(table, field, value, complement=False):
    value = Comparable(value)
    return selectop(table, field, value, operator.le, complement=complement)


def good_selectlt(table, field, value, complement=False):
    value = Comparable(value)
    return select(table, field, lambda x: x < value, complement=complement)


def bad_selectrangeopenleft(table, field, minv, maxv, complement=False):
    minv = Comparable(minv)
    maxv = Comparable(maxv)
    return select(table, field, lambda v: minv <= v <= maxv, complement=complement)


def bad_selectnotin(table, field, value, complement=False):
    return select(table, field, lambda v: v not in value)      # complement dropped


def good_selectnotin(table, field, value, complement=False):
    return select(table, field, lambda v: not (v in value), complement=complement)
