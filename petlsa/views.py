"""The view model: for every Table / IterContainer subclass, what the
constructor stores and how __iter__ produces its iterator."""
from __future__ import annotations

import ast

from .loader import own_nodes, norm
from .resolve import canon

TABLE_BASES = ('petl.util.base:Table', 'petl.util.base:IterContainer')


class ViewInfo(object):
    def __init__(self, cls):
        self.cls = cls
        self.init = None            # FunctionInfo of __init__ (own or inherited)
        self.iter = None            # FunctionInfo of __iter__ (own or inherited)
        self.attr_values = {}       # attr -> list of value nodes assigned in __init__
        self.iter_kind = None       # 'generator' | 'delegate' | 'other' | 'abstract'
        self.iter_targets = []      # [(FunctionInfo|None, call node)] returned by __iter__
        self.iter_returns = []      # return value nodes of a non-generator __iter__

    @property
    def name(self):
        return self.cls.name

    def __repr__(self):
        return '<view %s %s>' % (self.cls.fq, self.iter_kind)


class ViewModel(object):
    def __init__(self, ctx):
        self.ctx = ctx
        self.res = ctx.res
        self.views = {}
        for c in ctx.project.all_classes():
            if c.module.name.startswith('petl._controls'):
                pass
            mro = self.res.mro(c)
            if any(b.fq in TABLE_BASES for b in mro) and c.fq not in TABLE_BASES:
                self.views[c.fq] = self._build(c)

    def real_views(self):
        return [v for v in self.views.values()
                if not v.cls.module.name.startswith('petl._controls')]

    def control_views(self, control):
        return [v for v in self.views.values()
                if v.cls.module.name == 'petl._controls.' + control]

    def _build(self, c):
        v = ViewInfo(c)
        v.init = self.res.lookup_method(c, '__init__')
        v.iter = self.res.lookup_method(c, '__iter__')
        if v.init is not None:
            for n in own_nodes(v.init.node):
                if isinstance(n, ast.Assign):
                    for t in n.targets:
                        self._collect_attr(v, t, n.value)
                elif isinstance(n, ast.AugAssign):
                    self._collect_attr(v, n.target, n.value)
        it = v.iter
        if it is None or it.cls.fq == 'petl.util.base:IterContainer':
            v.iter_kind = 'abstract'
        elif it.is_generator:
            v.iter_kind = 'generator'
        else:
            rets = [n for n in own_nodes(it.node) if isinstance(n, ast.Return) and n.value is not None]
            v.iter_returns = [r.value for r in rets]
            targets = []
            ok = bool(rets)
            for r in rets:
                val = r.value
                if isinstance(val, ast.Call):
                    refs = self.res.resolve_call(it, val)
                    fns = [x.target for x in refs if x.kind == 'func']
                    if fns:
                        for f in fns:
                            targets.append((f, val))
                    else:
                        targets.append((None, val))
                else:
                    targets.append((None, val))
            v.iter_targets = targets
            v.iter_kind = 'delegate' if ok else 'other'
        return v

    def _collect_attr(self, v, target, value):
        if isinstance(target, ast.Attribute) and isinstance(target.value, ast.Name) \
                and target.value.id == 'self':
            v.attr_values.setdefault(target.attr, []).append(value)
        elif isinstance(target, (ast.Tuple, ast.List)):
            if isinstance(value, (ast.Tuple, ast.List)) and len(value.elts) == len(target.elts):
                for t, val in zip(target.elts, value.elts):
                    self._collect_attr(v, t, val)
            else:
                for t in target.elts:
                    self._collect_attr(v, t, value)

    def view_of_method(self, fn):
        if fn.cls is None:
            return None
        return self.views.get(fn.cls.fq)

    def attr_is_input(self, cls, attr):
        """Does self.<attr> hold (an object reachable from) a constructor
        argument?  True / False / None (attribute never assigned in __init__)."""
        v = self.views.get(cls.fq)
        if v is None or v.init is None:
            return None
        vals = v.attr_values.get(attr)
        if not vals:
            # look through the MRO for another __init__ assigning it
            return None
        fa = self.ctx.an.analysis(v.init)
        out = False
        for val in vals:
            st = None
            # state at the assignment: use the joined env of the constructor
            env = fa.flat_env()
            try:
                av = fa.eval_pure(val, env)
            except Exception:
                return True
            if any(a[0] in ('ARG', 'TABLE', 'DATA', 'ROW', 'HDR', 'ITER') or a == ('TOP',) for a in av):
                out = True
        return out
