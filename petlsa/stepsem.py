"""Step semantics of streaming loops: one pass of a loop as a function of a finite set of *input symbols*.

The set operations (C08) and the run detectors of dedup (C10) touch row values only through comparisons: `<` / `==`
between the two cursors of a merge, `==` between the key of a row and the key of its predecessor, `count > 0` on a
Counter.  Everything else in those loops is control: flags, sentinels, which cursor is advanced, which row is yielded.
So one pass of such a loop is a finite function

        (abstract state at the top of the pass,  outcome of the comparisons,  which next() calls are exhausted)
                    ->  (rows yielded, cursors advanced, exit kind, abstract state after the pass)

and the loop as a whole is a finite transducer: the set of abstract states reachable from the prelude is computed to
a fixpoint, every (state, symbol) pair is evaluated exactly once.  Nothing is executed: statements are interpreted
over the abstract values below, an expression the domain does not model is OPAQUE, and a test on an opaque value makes
the analysis give up (Unknown -> the rule reports `undecided`).

Abstract values (hashable tuples):
    ('c', v)            constant (None, True, False, small ints saturating at 3 = "three or more", strings)
    ('obj', n)          a sentinel object created by `object()` at statement n
    ('row', S, i)       a row taken from stream S; i = 0: the latest row taken before this pass, 1, 2..: taken during
                        this pass (in order), 'old': any earlier one, 'hdr': the header
    ('app', f, row)     f(row) for a function f that does not depend on the pass (a key getter)
    ('iter', S)         iterator over stream S (coercions such as (tuple(r) for r in it) are transparent)
    ('table', S)        a table parameter
    ('cfg', name)       a parameter / attribute that is constant for the whole iteration (strict, key, count ...)
    ('cat', x, y)       x + y of sequences; ('tuple', (x, ...)) a tuple display
    ('get', c, k)       c[k] of a counting container; ('bag', n) Counter / set built at n
    ('opq', n)          opaque
"""
from __future__ import annotations

import ast

from .loader import norm

SAT = 3


class Unknown(Exception):
    pass


class UnboundRead(Unknown):
    """a local of the function is read on a reachable path on which nothing was assigned to it yet
    (UnboundLocalError at run time); subclass of Unknown so that callers that do not care stay undecided"""
    def __init__(self, name, node):
        Unknown.__init__(self, 'local `%s` is read before anything is assigned to it' % name)
        self.name, self.node = name, node


class Stop(Exception):
    """control: too many states"""


def C(v):
    if isinstance(v, int) and not isinstance(v, bool) and v >= SAT:
        v = SAT
    return ('c', v)


NONE = C(None)
TRUE = C(True)
FALSE = C(False)
EXC_STOP = ('exc', 'StopIteration')


class St(object):
    """immutable-by-convention path state"""
    __slots__ = ('env', 'eff', 'log')

    def __init__(self, env, eff=(), log=()):
        self.env = env
        self.eff = eff
        self.log = log

    def bind(self, name, v):
        e = dict(self.env)
        e[name] = v
        return St(e, self.eff, self.log)

    def emit(self, *x):
        return St(self.env, self.eff + (tuple(x),), self.log)

    def note(self, *x):
        return St(self.env, self.eff, self.log + (tuple(x),))

    def key(self):
        return tuple(sorted((k, v) for k, v in self.env.items()))


class Outcome(object):
    __slots__ = ('st', 'kind', 'value')

    def __init__(self, st, kind, value=None):
        self.st = st
        self.kind = kind        # fall | continue | break | return | stop (StopIteration raised) | raise
        self.value = value


class PassRecord(object):
    __slots__ = ('loop', 'entry', 'log', 'eff', 'kind', 'end', 'index', 'value')

    def __init__(self, loop, entry, log, eff, kind, end, index, value=None):
        self.loop = loop
        self.entry = entry      # env (dict) at the top of the pass
        self.log = log          # input symbols consumed: ('rel', S1, S2, 'LT'|'EQ'|'GT'), ('next', S, 'ok'|'exh'),
        self.eff = eff          #                         ('cfg', name, bool), ('atom', text, bool)
        self.kind = kind        # next | break | exh | return | stop | raise
        self.end = end
        self.index = index
        self.value = value


COERCE = {'tuple', 'list'}
KEYFN_MAKERS = {'itemgetter', 'comparable_itemgetter', 'rowgetter', 'attrgetter'}


def rows_in(v):
    out = []
    if isinstance(v, tuple):
        if v and v[0] == 'row':
            out.append(v)
        else:
            for x in v:
                if isinstance(x, tuple):
                    out.extend(rows_in(x))
    return out


class Machine(object):
    """Interprets one function.  `streams` maps parameter names to stream ids; `cfg` names parameters that are
    constants of the iteration.  relation(S1, S2) -> names the *input symbol* that orders two rows / keys."""

    def __init__(self, fn_node, streams, cfg=(), max_states=200, key_relation='EQNE', row_relation='ORDER',
                 self_attrs=None, globals_const=None):
        self.fn = fn_node
        self.streams = dict(streams)
        self.cfg = set(cfg)
        self.records = []
        self.pre = {}           # loop node -> list of (eff, log) from function start to the loop
        self.finals = []        # (origin, eff, log, kind, value): origin = None (no loop entered) or a pass index
        self.max_states = max_states
        self.key_relation = key_relation
        self.row_relation = row_relation
        self.self_attrs = self_attrs or {}
        self.globals_const = globals_const or {}
        self.bags = []
        self.budget_misuse = []     # (node, kind, delta): an early exit on a counter that is not the sum of the counts
        self.hdr_compared = []  # comparisons that read the header of a stream as if it were a data row
        self.stale = []         # comparisons that read a row taken before the latest one of its stream
        self._opq = 0
        self.loops_seen = []
        # names that are locals of the function by Python's scoping rule (assigned somewhere in its own body, not
        # declared global / nonlocal); comprehension targets live in their own scope and are left out
        declared = {n for x in ast.walk(fn_node) if isinstance(x, (ast.Global, ast.Nonlocal)) for n in x.names}
        self.local_names = set()
        stack = list(fn_node.body)
        while stack:
            x = stack.pop()
            if isinstance(x, (ast.FunctionDef, ast.AsyncFunctionDef, ast.ClassDef)):
                self.local_names.add(x.name)
                continue
            if isinstance(x, (ast.Lambda, ast.ListComp, ast.SetComp, ast.DictComp, ast.GeneratorExp)):
                continue
            if isinstance(x, ast.Name) and isinstance(x.ctx, ast.Store):
                self.local_names.add(x.id)
            elif isinstance(x, (ast.Import, ast.ImportFrom)):
                self.local_names.update((a.asname or a.name).split('.')[0] for a in x.names)
            elif isinstance(x, ast.ExceptHandler) and x.name:
                self.local_names.add(x.name)
            stack.extend(ast.iter_child_nodes(x))
        self.local_names -= declared

    # ------------------------------------------------------------------ driver
    def run(self):
        env = {}
        for a in self.fn.args.posonlyargs + self.fn.args.args + self.fn.args.kwonlyargs:
            if a.arg in self.streams:
                env[a.arg] = ('table', self.streams[a.arg])
            elif a.arg in self.cfg:
                env[a.arg] = ('cfg', a.arg)
            elif a.arg == 'self':
                env[a.arg] = ('self',)
            else:
                env[a.arg] = ('cfg', a.arg)
        outs = self.block(self.fn.body, St(env))
        for o in outs:
            origin = None
            eff = o.st.eff
            if eff and eff[0][0] == '@from':
                origin = eff[0][1]
                eff = eff[1:]
            self.finals.append((origin, eff, o.st.log, o.kind, o.value))
        return self

    def opaque(self, node=None):
        self._opq += 1
        return ('opq', getattr(node, 'lineno', 0), getattr(node, 'col_offset', self._opq))

    # ------------------------------------------------------------------ statements
    def block(self, stmts, st):
        """-> [Outcome]"""
        outs = []
        todo = [(0, st)]
        while todo:
            i, s = todo.pop()
            if i >= len(stmts):
                outs.append(Outcome(s, 'fall'))
                continue
            for o in self.stmt(stmts[i], s):
                if o.kind == 'fall':
                    todo.append((i + 1, o.st))
                else:
                    outs.append(o)
        return outs

    def stmt(self, s, st):
        if isinstance(s, ast.Pass) or isinstance(s, (ast.Import, ast.ImportFrom, ast.Global, ast.Nonlocal, ast.Assert)):
            return [Outcome(st, 'fall')]
        if isinstance(s, (ast.FunctionDef, ast.ClassDef)):
            return [Outcome(st.bind(s.name, ('fn', s.lineno)), 'fall')]
        if isinstance(s, ast.Expr):
            if isinstance(s.value, ast.Constant):
                return [Outcome(st, 'fall')]
            if isinstance(s.value, ast.Yield):
                outs = []
                if s.value.value is None:
                    return [Outcome(st.emit('yield', NONE), 'fall')]
                for v, st2 in self.ev(s.value.value, st):
                    if v == EXC_STOP:
                        outs.append(Outcome(st2, 'stop'))
                    else:
                        outs.append(Outcome(st2.emit('yield', v), 'fall'))
                return outs
            if isinstance(s.value, ast.YieldFrom):
                outs = []
                for v, st2 in self.ev(s.value.value, st):
                    if v == EXC_STOP:
                        outs.append(Outcome(st2, 'stop'))
                    elif v[0] in ('iter', 'table'):
                        outs.append(Outcome(st2.emit('drain', v[1]), 'fall'))
                    else:
                        raise Unknown('yield from %s' % norm(s.value.value))
                return outs
            outs = []
            for v, st2 in self.ev(s.value, st):
                outs.append(Outcome(st2, 'stop' if v == EXC_STOP else 'fall'))
            return outs
        if isinstance(s, ast.Assign):
            outs = []
            for v, st2 in self.ev(s.value, st):
                if v == EXC_STOP:
                    outs.append(Outcome(st2, 'stop'))
                    continue
                for tgt in s.targets:
                    st2 = self.assign(tgt, v, st2, s)
                outs.append(Outcome(st2, 'fall'))
            return outs
        if isinstance(s, ast.AugAssign):
            outs = []
            if isinstance(s.target, ast.Name):
                cur = st.env.get(s.target.id)
                for v, st2 in self.ev(s.value, st):
                    if v == EXC_STOP:
                        outs.append(Outcome(st2, 'stop'))
                        continue
                    nv = self.arith(type(s.op), cur, v, s)
                    outs.append(Outcome(st2.bind(s.target.id, nv), 'fall'))
                return outs
            if isinstance(s.target, ast.Subscript):
                for c, st2 in self.ev(s.target.value, st):
                    for k, st3 in self.ev(s.target.slice, st2):
                        for v, st4 in self.ev(s.value, st3):
                            op = {ast.Sub: 'dec', ast.Add: 'inc'}.get(type(s.op))
                            if op is None or c[0] != 'bag':
                                raise Unknown('augmented store %s' % norm(s))
                            st5 = st4.emit(op, c, k, v)
                            if v[0] == 'c' and isinstance(v[1], int):
                                # a budget that mirrors the sum of the counts is one off until it is updated as well
                                d = v[1] if op == 'dec' else -v[1]
                                for name, val in list(st5.env.items()):
                                    if isinstance(val, tuple) and val and val[0] == 'budget' and val[1] == c and val[2] == 'total':
                                        st5 = st5.bind(name, ('budget', c, 'total', val[3] + d))
                            outs.append(Outcome(st5, 'fall'))
                return outs
            raise Unknown('augmented assignment %s' % norm(s))
        if isinstance(s, ast.If):
            outs = []
            for t, st2 in self.truth(s.test, st):
                if t == 'stop':
                    outs.append(Outcome(st2, 'stop'))
                    continue
                outs.extend(self.block(s.body if t else s.orelse, st2))
            return outs
        if isinstance(s, ast.Return):
            if s.value is None:
                return [Outcome(st, 'return', NONE)]
            return [Outcome(st2, 'stop' if v == EXC_STOP else 'return', v) for v, st2 in self.ev(s.value, st)]
        if isinstance(s, ast.Break):
            return [Outcome(st, 'break')]
        if isinstance(s, ast.Continue):
            return [Outcome(st, 'continue')]
        if isinstance(s, ast.Raise):
            return [Outcome(st, 'raise', norm(s.exc) if s.exc is not None else '')]
        if isinstance(s, ast.Try):
            return self.do_try(s, st)
        if isinstance(s, ast.While):
            return self.loop(s, st)
        if isinstance(s, ast.For):
            return self.do_for(s, st)
        if isinstance(s, ast.With):
            st2 = st
            for it in s.items:
                if it.optional_vars is not None:
                    st2 = self.assign(it.optional_vars, self.opaque(s), st2, s)
            return self.block(s.body, st2)
        if isinstance(s, ast.Delete):
            return [Outcome(st, 'fall')]
        raise Unknown('statement %s' % type(s).__name__)

    def assign(self, tgt, v, st, s):
        if isinstance(tgt, ast.Name):
            return st.bind(tgt.id, v)
        if isinstance(tgt, (ast.Tuple, ast.List)):
            if v[0] == 'tuple' and len(v[1]) == len(tgt.elts):
                for t, x in zip(tgt.elts, v[1]):
                    st = self.assign(t, x, st, s)
                return st
            for t in tgt.elts:
                st = self.assign(t, self.opaque(s), st, s)
            return st
        if isinstance(tgt, ast.Attribute) and isinstance(tgt.value, ast.Name) and tgt.value.id == 'self':
            return st.bind('self.' + tgt.attr, v)
        if isinstance(tgt, ast.Subscript):
            # a store into a container: an effect, the container itself stays what it was
            outs = self.ev(tgt.value, st)
            c, st2 = outs[0]
            ks = self.ev(tgt.slice, st2)
            k, st3 = ks[0]
            return st3.emit('store', c, k, v)
        if isinstance(tgt, ast.Starred):
            return self.assign(tgt.value, self.opaque(s), st, s)
        raise Unknown('assignment target %s' % norm(tgt))

    def arith(self, op, a, b, node):
        if a is not None and b is not None and a[0] == 'budget' and b[0] == 'c' and isinstance(b[1], int) and \
                not isinstance(b[1], bool) and op in (ast.Sub, ast.Add) and abs(a[3]) < 4:
            return ('budget', a[1], a[2], a[3] + (b[1] if op is ast.Add else -b[1]))
        if a is not None and b is not None and a[0] == 'c' and b[0] == 'c' and \
                isinstance(a[1], int) and isinstance(b[1], int) and not isinstance(a[1], bool) and not isinstance(b[1], bool):
            if op is ast.Add:
                if a[1] == SAT or b[1] == SAT:
                    return C(SAT) if min(a[1], b[1]) >= 0 else self.opaque(node)
                return C(a[1] + b[1])
            if op is ast.Sub:
                if a[1] == SAT or b[1] == SAT:
                    return self.opaque(node)
                return C(a[1] - b[1]) if a[1] - b[1] >= 0 else self.opaque(node)
        if op is ast.Add and a is not None and b is not None:
            return ('cat', a, b)
        return self.opaque(node)

    def handles_stop(self, h):
        if h.type is None:
            return True
        names = [norm(x) for x in (h.type.elts if isinstance(h.type, ast.Tuple) else [h.type])]
        return any(n in ('StopIteration', 'Exception', 'BaseException') for n in names)

    def do_try(self, s, st):
        outs = []
        after = []
        for o in self.block(s.body, st):
            if o.kind == 'stop' and any(self.handles_stop(h) for h in s.handlers):
                h = [h for h in s.handlers if self.handles_stop(h)][0]
                st2 = o.st
                if h.name:
                    st2 = st2.bind(h.name, self.opaque(h))
                after.extend(self.block(h.body, st2))
            elif o.kind == 'fall':
                after.extend(self.block(s.orelse, o.st) if s.orelse else [o])
            else:
                after.append(o)
        if not s.finalbody:
            return after
        for o in after:
            for f in self.block(s.finalbody, o.st):
                if f.kind == 'fall':
                    outs.append(Outcome(f.st, o.kind, o.value))
                else:
                    outs.append(f)
        return outs

    # ------------------------------------------------------------------ loops
    def canon(self, env):
        """Names of rows are relative to the pass: the latest row of each stream becomes 0.  An earlier row becomes
        'run0' when it is known to be the first row of the run (of equal keys) the latest row belongs to, else 'old'."""
        latest = {}
        for v in env.values():
            for r in rows_in(v):
                if isinstance(r[2], int):
                    latest[r[1]] = max(latest.get(r[1], 0), r[2])
        facts = {}
        plan = {}
        for S, top in latest.items():
            had = bool(env.get('$seen:' + str(S)))
            rf = env.get('$rf:' + str(S))
            rel = env.get('$rel:%s[0]~%s[1]' % (S, S))
            if top == 0:
                plan[S] = {0: 0, 'run0': 'run0'}
                facts['$rf:' + str(S)] = rf
                facts['$seen:' + str(S)] = had or any(r[1] == S and r[2] == 0 for v in env.values() for r in rows_in(v))
            elif top == 1:
                same = (rel == 'EQ')
                plan[S] = {1: 0, 0: ('run0' if (same and rf is True) else 'old'), 'run0': ('run0' if same else 'old')}
                facts['$rf:' + str(S)] = True if (not had or rel == 'NE') else (False if same else None)
                facts['$seen:' + str(S)] = True
            else:
                plan[S] = {top: 0}
                facts['$rf:' + str(S)] = None
                facts['$seen:' + str(S)] = True

        def ren(v):
            if isinstance(v, tuple):
                if v and v[0] == 'row':
                    if v[2] == 'hdr':
                        return v
                    return ('row', v[1], plan.get(v[1], {}).get(v[2], 'old'))
                return tuple(ren(x) if isinstance(x, tuple) else x for x in v)
            return v
        out = {}
        for k, v in env.items():
            if k.startswith('$rel') or k.startswith('$atom') or k.startswith('$n:') or k.startswith('$rf:') or k.startswith('$seen:'):
                continue
            out[k] = ren(v)
        for k, v in facts.items():
            if v is not None and v is not False or k.startswith('$rf:') and v is False:
                out[k] = v
        return out

    def loop(self, s, st, fetch=None):
        """while / for loops over a stream: passes are evaluated per canonical entry state until no new state turns up.
        fetch = (target, stream) for `for target in <iterator over stream>`."""
        self.loops_seen.append(s)
        self.pre.setdefault(s, []).append((st.eff, st.log, self.canon(st.env)))
        seen = {}
        work = [self.canon(st.env)]
        exits = []
        while work:
            env = work.pop()
            k = tuple(sorted(env.items()))
            if k in seen:
                continue
            seen[k] = True
            if len(seen) > self.max_states:
                raise Unknown('more than %d abstract states in the loop at line %d' % (self.max_states, s.lineno))
            starts = []
            st0 = St(dict(env))
            if fetch is not None:
                for v, st1 in self.next_of(fetch[1], st0, s):
                    if v == EXC_STOP:
                        starts.append(('exh', st1))
                    else:
                        starts.append(('go', self.assign(fetch[0], v, st1, s)))
            else:
                for t, st1 in self.truth(s.test, st0):
                    if t == 'stop':
                        starts.append(('stopped', st1))
                    else:
                        starts.append(('go' if t else 'exh', st1))
            for tag, st1 in starts:
                if tag == 'exh':
                    outs = self.block(s.orelse, st1) if s.orelse else [Outcome(st1, 'fall')]
                    for o in outs:
                        rec = self.record(s, env, o.st, 'exh' if o.kind == 'fall' else o.kind, o.value)
                        exits.append((rec, o, 'fall' if o.kind == 'fall' else o.kind))
                    continue
                if tag == 'stopped':
                    rec = self.record(s, env, st1, 'stop')
                    exits.append((rec, Outcome(st1, 'stop'), 'stop'))
                    continue
                for o in self.block(s.body, st1):
                    if o.kind in ('fall', 'continue'):
                        rec = self.record(s, env, o.st, 'next')
                        work.append(rec.end)
                    elif o.kind == 'break':
                        rec = self.record(s, env, o.st, 'break')
                        exits.append((rec, o, 'fall'))
                    else:
                        rec = self.record(s, env, o.st, o.kind, o.value)
                        exits.append((rec, o, o.kind))
        outs = []
        for rec, o, kind in exits:
            st2 = St(dict(rec.end), (('@from', rec.index),), ())
            outs.append(Outcome(st2, kind, o.value))
        return outs

    def record(self, loop, entry, st, kind, value=None):
        rec = PassRecord(loop, dict(entry), st.log, st.eff, kind, self.canon(st.env), len(self.records), value)
        self.records.append(rec)
        return rec

    def do_for(self, s, st):
        outs = []
        for v, st2 in self.ev(s.iter, st):
            if v == EXC_STOP:
                outs.append(Outcome(st2, 'stop'))
                continue
            if v[0] == 'table':
                v, st2 = self.fresh_iter(v, st2)
            if v[0] == 'iter':
                # `for r in it: yield r` -- the rest of the stream goes out
                if len(s.body) == 1 and isinstance(s.body[0], ast.Expr) and isinstance(s.body[0].value, ast.Yield) and \
                        not s.orelse and s.body[0].value.value is not None:
                    y = s.body[0].value.value
                    while isinstance(y, ast.Call) and isinstance(y.func, ast.Name) and y.func.id in COERCE and len(y.args) == 1:
                        y = y.args[0]
                    if isinstance(y, ast.Name) and isinstance(s.target, ast.Name) and y.id == s.target.id:
                        st3 = st2.emit('drain', v[1]).bind('$n:' + str(v[1]), 'drained')
                        outs.append(Outcome(st3, 'fall'))
                        continue
                outs.extend(self.loop(s, st2, fetch=(s.target, v)))
                continue
            # a loop over something that is not a stream (cells of a row, a literal): its effect on the locals is opaque
            for x in ast.walk(s):
                if isinstance(x, (ast.Yield, ast.YieldFrom, ast.Return)):
                    raise Unknown('loop over %s yields / returns' % norm(s.iter))
            st3 = st2
            for x in ast.walk(s):
                if isinstance(x, ast.Name) and isinstance(x.ctx, ast.Store):
                    st3 = st3.bind(x.id, self.opaque(x))
            outs.append(Outcome(st3, 'fall'))
        return outs

    # ------------------------------------------------------------------ expressions
    def fresh_iter(self, v, st):
        """iterating a *table* starts a new pass over it (header first): the first iterator over table S is stream S, a
        later one S', S'' ...; an iterator stays the stream it is"""
        if v[0] == 'iter':
            return v, st
        S = v[1]
        k = st.env.get('$k:' + str(S), 0)
        st2 = st.bind('$k:' + str(S), k + 1)
        return ('iter', str(S) + "'" * k), st2

    def next_of(self, it, st, node, default=None):
        """-> [(row | EXC_STOP | default, st')]"""
        S = it[1]
        n = st.env.get('$n:' + str(S))
        if n == 'drained':
            return [(EXC_STOP if default is None else default, st.note('next', S, 'exh'))]
        if n is None and not any(r[1] == S for v in st.env.values() for r in rows_in(v)) and \
                not st.env.get('$hdr:' + str(S)):
            # the first item of a table is its header; every table has one (domain restriction)
            st2 = st.bind('$hdr:' + str(S), True)
            return [(('row', S, 'hdr'), st2)]
        idx = 1 + max([r[2] for v in st.env.values() for r in rows_in(v) if r[1] == S and isinstance(r[2], int)] + [0])
        idx = max(idx, (n or 0) + 1)
        ok = st.bind('$n:' + str(S), idx).note('next', S, 'ok')
        ex = st.note('next', S, 'exh')
        return [(('row', S, idx), ok), (EXC_STOP if default is None else default, ex)]

    def ev(self, e, st):
        """-> [(value, st')]"""
        if isinstance(e, ast.Constant):
            return [(C(e.value), st)]
        if isinstance(e, ast.Name):
            if e.id in st.env:
                return [(st.env[e.id], st)]
            if e.id in ('True', 'False', 'None'):
                return [(C({'True': True, 'False': False, 'None': None}[e.id]), st)]
            if e.id in self.globals_const:
                return [(self.globals_const[e.id], st)]
            if e.id in self.local_names:
                raise UnboundRead(e.id, e)
            return [(('glob', e.id), st)]
        if isinstance(e, ast.Attribute):
            if isinstance(e.value, ast.Name) and e.value.id == 'self':
                k = 'self.' + e.attr
                if k in st.env:
                    return [(st.env[k], st)]
                if e.attr in self.self_attrs:
                    return [(self.self_attrs[e.attr], st)]
                return [(('cfg', k), st)]
            outs = []
            for v, st2 in self.ev(e.value, st):
                outs.append((('attr', v, e.attr) if v != EXC_STOP else v, st2))
            return outs
        if isinstance(e, (ast.Tuple, ast.List)):
            outs = [((), st)]
            for x in e.elts:
                if isinstance(x, ast.Starred):
                    return [(self.opaque(e), st)]
                nxt = []
                for acc, s1 in outs:
                    if acc == EXC_STOP:
                        nxt.append((acc, s1))
                        continue
                    for v, s2 in self.ev(x, s1):
                        nxt.append((EXC_STOP if v == EXC_STOP else acc + (v,), s2))
                outs = nxt
            return [((('tuple', acc) if acc != EXC_STOP else acc), s1) for acc, s1 in outs]
        if isinstance(e, ast.Compare) or isinstance(e, ast.BoolOp) or (isinstance(e, ast.UnaryOp) and isinstance(e.op, ast.Not)):
            return [((EXC_STOP if t == 'stop' else C(bool(t))), s1) for t, s1 in self.truth(e, st)]
        if isinstance(e, ast.IfExp):
            outs = []
            for t, s1 in self.truth(e.test, st):
                if t == 'stop':
                    outs.append((EXC_STOP, s1))
                else:
                    outs.extend(self.ev(e.body if t else e.orelse, s1))
            return outs
        if isinstance(e, ast.BinOp):
            outs = []
            for a, s1 in self.ev(e.left, st):
                if a == EXC_STOP:
                    outs.append((a, s1))
                    continue
                for b, s2 in self.ev(e.right, s1):
                    outs.append((EXC_STOP if b == EXC_STOP else self.arith(type(e.op), a, b, e), s2))
            return outs
        if isinstance(e, ast.Subscript):
            outs = []
            for c, s1 in self.ev(e.value, st):
                if c == EXC_STOP:
                    outs.append((c, s1))
                    continue
                for k, s2 in self.ev(e.slice, s1):
                    if k == EXC_STOP:
                        outs.append((k, s2))
                    elif c[0] == 'bag':
                        outs.append((('get', c, k), s2))
                    else:
                        outs.append((('sub', c, k), s2))
            return outs
        if isinstance(e, ast.GeneratorExp) or isinstance(e, ast.ListComp):
            # (coerce(r) for r in <stream>) is the stream
            if len(e.generators) == 1 and not e.generators[0].ifs and isinstance(e.generators[0].target, ast.Name):
                elt = e.elt
                while isinstance(elt, ast.Call) and isinstance(elt.func, ast.Name) and elt.func.id in COERCE and len(elt.args) == 1:
                    elt = elt.args[0]
                if isinstance(elt, ast.Name) and elt.id == e.generators[0].target.id:
                    outs = []
                    for v, s1 in self.ev(e.generators[0].iter, st):
                        if v != EXC_STOP and v[0] in ('iter', 'table'):
                            v, s1 = self.fresh_iter(v, s1)
                            outs.append((('iter', v[1]) if isinstance(e, ast.GeneratorExp) else ('rows', v[1]), s1))
                        else:
                            outs.append((self.opaque(e), s1))
                    return outs
            return [(self.opaque(e), st)]
        if isinstance(e, ast.Lambda):
            return [(('fn', e.lineno), st)]
        if isinstance(e, ast.Call):
            return self.call(e, st)
        if isinstance(e, ast.Starred):
            return self.ev(e.value, st)
        if isinstance(e, ast.JoinedStr):
            return [(self.opaque(e), st)]
        if isinstance(e, ast.UnaryOp):
            return [(self.opaque(e), s1) for _, s1 in self.ev(e.operand, st)]
        if isinstance(e, (ast.Dict, ast.Set, ast.DictComp, ast.SetComp)):
            return [(self.opaque(e), st)]
        if isinstance(e, ast.Yield):
            raise Unknown('yield used as an expression')
        raise Unknown('expression %s' % type(e).__name__)

    def args(self, call, st):
        outs = [((), st)]
        for x in list(call.args) + [k.value for k in call.keywords]:
            nxt = []
            for acc, s1 in outs:
                if acc == EXC_STOP:
                    nxt.append((acc, s1))
                    continue
                for v, s2 in self.ev(x, s1):
                    nxt.append((EXC_STOP if v == EXC_STOP else acc + (v,), s2))
            outs = nxt
        return outs

    def call(self, e, st):
        f = e.func
        fname = f.id if isinstance(f, ast.Name) else (f.attr if isinstance(f, ast.Attribute) else None)
        local_f = st.env.get(f.id) if isinstance(f, ast.Name) else None
        outs = []
        # method calls on containers
        if isinstance(f, ast.Attribute) and not (isinstance(f.value, ast.Name) and f.value.id in ('operator', 'itertools', 'collections')):
            for recv, s0 in self.ev(f.value, st):
                if recv == EXC_STOP:
                    outs.append((recv, s0))
                    continue
                for a, s1 in self.args(e, s0):
                    if a == EXC_STOP:
                        outs.append((a, s1))
                    elif recv[0] == 'bag' and f.attr in ('add', 'append', 'update', 'discard', 'remove', 'subtract'):
                        outs.append((NONE, s1.emit('bagcall', recv, f.attr, a)))
                    elif recv[0] == 'bag' and f.attr == 'get' and a:
                        outs.append((('get', recv, a[0]), s1))
                    elif recv[0] == 'bag' and f.attr == 'values' and not a:
                        outs.append((('bagvalues', recv), s1))
                    elif recv[0] == 'iter' and f.attr == '__next__':
                        outs.extend(self.next_of(recv, s1, e))
                    else:
                        outs.append((self.opaque(e), s1))
            return outs
        for a, s1 in self.args(e, st):
            if a == EXC_STOP:
                outs.append((a, s1))
                continue
            npos = len(e.args)
            if local_f is not None and local_f[0] in ('keyfn', 'fn', 'opq', 'cfg', 'glob') and len(a) == 1 and a[0][0] == 'row':
                outs.append((('app', local_f, a[0]), s1))
                continue
            if fname in COERCE and len(a) == 1 and local_f is None:
                v = a[0]
                if v[0] in ('row', 'cat', 'tuple'):
                    outs.append((v, s1))
                elif v[0] in ('iter', 'table'):
                    v, s1 = self.fresh_iter(v, s1)
                    outs.append((('rows', v[1]), s1))
                else:
                    outs.append((self.opaque(e), s1))
                continue
            if fname == 'map' and len(a) == 2 and local_f is None and a[0] in (('glob', 'tuple'), ('glob', 'list')) and \
                    a[1][0] in ('iter', 'table', 'rows'):
                v = a[1]
                if v[0] != 'rows':
                    v, s1 = self.fresh_iter(v, s1)
                outs.append((('iter', v[1]), s1))
                continue
            if fname == 'Comparable' and len(a) == 1:
                outs.append((('cmpw', a[0]), s1))
                continue
            if fname == 'iter' and len(a) == 1 and a[0][0] in ('table', 'iter'):
                v, s1 = self.fresh_iter(a[0], s1)
                outs.append((v, s1))
                continue
            if fname == 'next' and a and a[0][0] == 'iter' and local_f is None:
                outs.extend(self.next_of(a[0], s1, e, default=a[1] if len(a) > 1 else None))
                continue
            if fname == 'object' and not a:
                outs.append((('obj', e.lineno), s1))
                continue
            if fname in ('Counter', 'set', 'frozenset', 'dict', 'defaultdict', 'list') and local_f is None:
                if not a:
                    outs.append((('bag', fname, e.lineno, None), s1))
                elif len(a) == 1 and a[0][0] in ('iter', 'rows', 'table'):
                    v = a[0]
                    if v[0] == 'table':
                        v, s1 = self.fresh_iter(v, s1)
                    self.bags.append(('bag', fname, e.lineno, v[1]))
                    outs.append((('bag', fname, e.lineno, v[1]),
                                 s1.emit('consume', v[1], bool(s1.env.get('$hdr:' + str(v[1])))).bind('$n:' + str(v[1]), 'drained')))
                else:
                    outs.append((('bag', fname, e.lineno, None), s1))
                continue
            if fname in KEYFN_MAKERS:
                outs.append((('keyfn', fname), s1))
                continue
            if fname == 'bool' and len(a) == 1:
                outs.extend([(C(bool(t)), s2) for t, s2 in self.truth_of(a[0], s1, e)])
                continue
            if fname == 'len' and len(a) == 1 and a[0][0] == 'bag' and local_f is None:
                outs.append((('budget', a[0], 'distinct', 0), s1))       # number of distinct members
                continue
            if fname == 'sum' and len(a) == 1 and a[0][0] == 'bagvalues' and local_f is None:
                outs.append((('budget', a[0][1], 'total', 0), s1))       # sum of the counts
                continue
            if fname == 'len' or fname == 'range':
                outs.append((self.opaque(e), s1))
                continue
            outs.append((('call', fname or norm(f), a), s1))
        return outs

    # ------------------------------------------------------------------ tests
    def truth(self, t, st):
        """-> [(True | False | 'stop', st')]"""
        if isinstance(t, ast.BoolOp):
            outs = [(None, st)]
            is_and = isinstance(t.op, ast.And)
            for x in t.values:
                nxt = []
                for r, s1 in outs:
                    if r == 'stop' or (r is not None and r != is_and):
                        nxt.append((r, s1))     # short-circuited
                        continue
                    nxt.extend(self.truth(x, s1))
                outs = nxt
            return outs
        if isinstance(t, ast.UnaryOp) and isinstance(t.op, ast.Not):
            return [((r if r == 'stop' else (not r)), s1) for r, s1 in self.truth(t.operand, st)]
        if isinstance(t, ast.Compare):
            outs = []
            for l, s1 in self.ev(t.left, st):
                if l == EXC_STOP:
                    outs.append(('stop', s1))
                    continue
                outs.extend(self.chain(l, list(zip(t.ops, t.comparators)), s1, t))
            return outs
        outs = []
        for v, s1 in self.ev(t, st):
            if v == EXC_STOP:
                outs.append(('stop', s1))
            else:
                outs.extend(self.truth_of(v, s1, t))
        return outs

    def chain(self, left, rest, st, node):
        if not rest:
            return [(True, st)]
        op, rhs = rest[0]
        outs = []
        for r, s1 in self.ev(rhs, st):
            if r == EXC_STOP:
                outs.append(('stop', s1))
                continue
            for t, s2 in self.compare(type(op), left, r, s1, node):
                if t is True and len(rest) > 1:
                    outs.extend(self.chain(r, rest[1:], s2, node))
                else:
                    outs.append((t, s2))
        return outs

    def truth_of(self, v, st, node):
        if v[0] == 'c':
            return [(bool(v[1]), st)]
        if v[0] in ('row',):
            if v[2] == 'hdr':
                return self.atom('header of %s is non-empty' % v[1], st)
            raise Unknown('truth test of a row')
        if v[0] in ('obj', 'fn', 'keyfn', 'iter'):
            return [(True, st)]
        if v[0] == 'tuple':
            return [(bool(v[1]), st)]
        if v[0] == 'cfg':
            k = '$cfg:' + v[1]
            if k in st.env:
                return [(st.env[k], st)]
            return [(b, st.bind(k, b).note('cfg', v[1], b)) for b in (True, False)]
        if v[0] == 'opq' or v[0] == 'call':
            return self.atom('opaque@%s' % (v[1] if v[0] == 'opq' else v[1]), st, v)
        if v[0] == 'get':
            # c[k] tested for truth == c[k] > 0 for a count
            return self.count_positive(v, st)
        if v[0] == 'budget':
            return self.budget_positive(v, st, node)
        raise Unknown('truth test of %s' % (v[0],))

    def count_positive(self, g, st):
        if st.env.get('$allzero:%s' % (g[1][2],)):
            return [(False, st)]        # every count is known to be used up
        return self.atom('count(%s) > 0' % self.show(g[2]), st)

    def budget_positive(self, v, st, node):
        """a counter derived from a counting container, tested for `anything left`"""
        bag, kind, delta = v[1], v[2], v[3]
        if kind != 'total' or delta != 0:
            self.budget_misuse.append((node, kind, delta))
            raise Unknown('budget')
        k = '$allzero:%s' % (bag[2],)
        if st.env.get(k):
            return [(False, st)]
        return [(True, st.note('atom', 'counts left in bag@%s' % bag[2], True)),
                (False, st.bind(k, True).note('atom', 'counts left in bag@%s' % bag[2], False))]

    def atom(self, text, st, v=None):
        k = '$atom:' + text
        if k in st.env:
            return [(st.env[k], st)]
        return [(b, st.bind(k, b).note('atom', text, b)) for b in (True, False)]

    def show(self, v):
        if v[0] == 'row':
            return '%s[%s]' % (v[1], v[2])
        if v[0] == 'app':
            return 'key(%s)' % self.show(v[2])
        if v[0] == 'c':
            return repr(v[1])
        return v[0]

    def compare(self, op, a, b, st, node):
        wrapped = a[0] == 'cmpw' or b[0] == 'cmpw'
        if a[0] == 'cmpw':
            a = a[1]
        if b[0] == 'cmpw':
            b = b[1]
        neg = False
        if op in (ast.NotEq, ast.IsNot, ast.NotIn):
            neg = True
            op = {ast.NotEq: ast.Eq, ast.IsNot: ast.Is, ast.NotIn: ast.In}[op]

        def out(rs):
            return [((not r) if neg and r != 'stop' else r, s) for r, s in rs]
        if op is ast.Is:
            if a[0] == 'cfg' or b[0] == 'cfg':
                c, other = (a, b) if a[0] == 'cfg' else (b, a)
                return out(self.atom('%s is %s' % (c[1], self.show(other)), st))
            if a[0] in ('opq', 'call') or b[0] in ('opq', 'call'):
                raise Unknown('identity test of an opaque value')
            for d, s_ in ((a, b), (b, a)):
                if d[0] == 'app' and s_[0] == 'c':
                    return out(self.atom('%s == %r' % (self.show(d), s_[1]), st))
            return out([(a == b, st)])
        if op is ast.In:
            if b[0] == 'bag':
                if any(e[0] == 'bagcall' and e[1] == b and e[2] in ('add', 'append') and e[3] == (a,) for e in st.eff):
                    return out([(True, st)])        # put there earlier in this very pass
                return out(self.atom('%s in %s' % (self.show(a), 'bag@%s' % b[2]), st))
            if b[0] == 'tuple':
                # x in (y, z): any equal
                outs = [(False, st)]
                for y in b[1]:
                    nxt = []
                    for r, s1 in outs:
                        if r:
                            nxt.append((r, s1))
                        else:
                            nxt.extend(self.compare(ast.Eq, a, y, s1, node))
                    outs = nxt
                return out(outs)
            return out(self.atom('%s in %s' % (self.show(a), self.show(b)), st))
        # equality / ordering
        if a[0] == 'c' and b[0] == 'c':
            try:
                r = {ast.Eq: lambda x, y: x == y, ast.Lt: lambda x, y: x < y, ast.Gt: lambda x, y: x > y,
                     ast.LtE: lambda x, y: x <= y, ast.GtE: lambda x, y: x >= y}[op](a[1], b[1])
            except TypeError:
                raise Unknown('comparison of constants %r, %r' % (a[1], b[1]))
            if SAT in (a[1], b[1]) and a[1] is not True and b[1] is not True and op is not ast.Eq or \
                    (op is ast.Eq and a[1] == SAT and b[1] == SAT):
                if isinstance(a[1], int) and isinstance(b[1], int):
                    raise Unknown('comparison of a saturated counter')
            return out([(bool(r), st)])
        if a[0] == 'get' or b[0] == 'get':
            g, other, flip = (a, b, False) if a[0] == 'get' else (b, a, True)
            if other[0] == 'c' and isinstance(other[1], int):
                o = op
                if flip:
                    o = {ast.Lt: ast.Gt, ast.Gt: ast.Lt, ast.LtE: ast.GtE, ast.GtE: ast.LtE, ast.Eq: ast.Eq}[op]
                # a count is 0 or positive: the test is decided per case where it is the same for every positive count
                pos = self.count_positive(g, st)
                c = other[1]
                f = {ast.Gt: lambda n: n > c, ast.GtE: lambda n: n >= c, ast.Lt: lambda n: n < c, ast.LtE: lambda n: n <= c,
                     ast.Eq: lambda n: n == c}[o]
                res = []
                for r, s in pos:
                    if not r:
                        res.append((f(0), s))
                    else:
                        vals = {f(n) for n in (1, 2, 3, 1000)}
                        if len(vals) != 1 or c >= 3:
                            raise Unknown('comparison of a count with %r' % (c,))
                        res.append((vals.pop(), s))
                return out(res)
            raise Unknown('comparison of a count with %s' % self.show(other))
        if a[0] == 'budget' or b[0] == 'budget':
            g, other, flip = (a, b, False) if a[0] == 'budget' else (b, a, True)
            if other == ('c', 0):
                o = op
                if flip:
                    o = {ast.Lt: ast.Gt, ast.Gt: ast.Lt, ast.LtE: ast.GtE, ast.GtE: ast.LtE, ast.Eq: ast.Eq}[op]
                pos = self.budget_positive(g, st, node)
                if o in (ast.Gt,):
                    return out(pos)
                if o in (ast.Eq, ast.LtE):
                    return out([(not r, s2) for r, s2 in pos])
            raise Unknown('comparison of a budget')
        data = ('row', 'app')
        sent = ('c', 'obj')
        if a[0] in data and b[0] in sent or b[0] in data and a[0] in sent:
            d, s_ = (a, b) if a[0] in data else (b, a)
            if d[0] == 'app' and s_[0] == 'c' and op is ast.Eq:
                # the key of a row may be None (or any constant): an input symbol of its own
                return out(self.atom('%s == %r' % (self.show(d), s_[1]), st))
            if op is ast.Eq:
                return out([(False, st)])       # a row never equals None; nothing equals a private sentinel object
            if not wrapped:
                raise Unknown('ordering of a row against a constant')
            if s_ == NONE:
                # Comparable(None) sorts before everything
                lt = (a is s_)
                r = {ast.Lt: lt, ast.LtE: lt, ast.Gt: not lt, ast.GtE: not lt}[op]
                return out([(r, st)])
            raise Unknown('ordering of a row against a constant')
        if a[0] in data and b[0] in data:
            if a[0] != b[0] or (a[0] == 'app' and a[1] != b[1]):
                raise Unknown('comparison of a row with a key')
            ra, rb = (a, b) if a[0] == 'row' else (a[2], b[2])
            if a[0] == 'app':
                # the first row of the current run has the key of the latest row
                ra = ('row', ra[1], 0) if ra[2] == 'run0' else ra
                rb = ('row', rb[1], 0) if rb[2] == 'run0' else rb
            if ra == rb:
                r = {ast.Eq: True, ast.Lt: False, ast.Gt: False, ast.LtE: True, ast.GtE: True}[op]
                return out([(r, st)])
            for r_ in (ra, rb):
                if r_[2] == 'old':
                    self.stale.append((node, self.show(r_)))
                    raise Unknown('stale')
                if r_[2] == 'hdr':
                    self.hdr_compared.append((node, r_[1]))
                    raise Unknown('header compared')
            outs = []
            for rel, s1 in self.relation(ra, rb, st, ordered=(op is not ast.Eq)):
                r = {ast.Eq: rel == 'EQ', ast.Lt: rel == 'LT', ast.Gt: rel == 'GT', ast.LtE: rel in ('LT', 'EQ'),
                     ast.GtE: rel in ('GT', 'EQ')}[op]
                if rel == 'NE' and op is not ast.Eq:
                    raise Unknown('ordering asked where only equality is modelled')
                outs.append((r, s1))
            return out(outs)
        if a[0] == 'cfg' or b[0] == 'cfg':
            return out(self.atom('%s == %s' % (self.show(a), self.show(b)), st))
        raise Unknown('comparison of %s with %s' % (a[0], b[0]))

    def relation(self, ra, rb, st, ordered):
        """The input symbol ordering two rows: chosen on first use in a pass, the same for every later test."""
        flip = False
        ka, kb = (ra[1], ra[2]), (rb[1], rb[2])
        if (str(ka[0]), str(ka[1])) > (str(kb[0]), str(kb[1])):
            ka, kb = kb, ka
            flip = True
        k = '$rel:%s[%s]~%s[%s]' % (ka[0], ka[1], kb[0], kb[1])
        mirror = {'LT': 'GT', 'GT': 'LT', 'EQ': 'EQ', 'NE': 'NE'}
        if k in st.env:
            rel = st.env[k]
            if rel == 'NE' and ordered:
                raise Unknown('ordering after an equality-only symbol')
            return [(mirror[rel] if flip else rel, st)]
        opts = ('LT', 'EQ', 'GT') if (ordered or self.row_relation == 'ORDER' and ka[0] != kb[0]) else ('EQ', 'NE')
        return [((mirror[rel] if flip else rel), st.bind(k, rel).note('rel', '%s[%s]' % ka, '%s[%s]' % kb, rel)) for rel in opts]
