"""Sink-effect skeletons: the ordered sequence of effects a writer / tee has on
its output stream, with guards and normalised payloads, for sibling comparison.

    open(mode) . wrap(encoding, errors, newline) . [guard] emit(HDR) . loop emit(ROW) . flush . detach@finally

`yield`s are erased, `self.x` reads as `x`, single-assignment locals are
inlined, the header variable reads HDR and the data-loop variable ROW, so a
tee generator and the matching to* function normalise to the same skeleton
when (and only when) they do the same things to the sink in the same order.
"""
from __future__ import annotations

import ast
import copy

from .loader import norm, own_nodes

SINK_METHODS = {'write', 'writerow', 'writerows', 'flush', 'detach', 'close', 'writelines'}


class Effect(object):
    __slots__ = ('kind', 'payload', 'guards', 'region', 'node')

    def __init__(self, kind, payload, guards, region, node):
        self.kind = kind
        self.payload = payload
        self.guards = tuple(guards)
        self.region = region        # '' | 'loop' | 'finally'
        self.node = node

    def key(self):
        return (self.kind, self.payload, self.guards, self.region)

    def __repr__(self):
        g = (' if ' + ' and '.join(self.guards)) if self.guards else ''
        r = ('@' + self.region) if self.region else ''
        return '%s(%s)%s%s' % (self.kind, self.payload, g, r)


class _Subst(ast.NodeTransformer):
    def __init__(self, env):
        self.env = env

    def visit_Attribute(self, node):
        if isinstance(node.value, ast.Name) and node.value.id == 'self':
            return ast.copy_location(ast.Name(id=node.attr, ctx=ast.Load()), node)
        self.generic_visit(node)
        return node

    def visit_Name(self, node):
        if node.id in self.env:
            return copy.deepcopy(self.env[node.id])
        return node


def _is_next_hdr(value):
    return isinstance(value, ast.Call) and isinstance(value.func, ast.Name) and value.func.id == 'next'


class Skeleton(object):
    def __init__(self, fn, table_names=('table',)):
        self.fn = fn
        self.effects = []
        self.sinks = set()
        self.env = {}            # local name -> defining expression (already normalised)
        self.assign_count = {}
        self.table_names = set(table_names)
        self.table_cond = {}     # table name -> guards under which it was re-bound to data(<itself>) (header dropped)
        for n in own_nodes(fn.node):
            if isinstance(n, ast.Assign):
                for t in n.targets:
                    if isinstance(t, ast.Name):
                        self.assign_count[t.id] = self.assign_count.get(t.id, 0) + 1
        self.walk(fn.node.body, [], '')

    # ---- normalisation
    def nexpr(self, e):
        e2 = _Subst(self.env).visit(copy.deepcopy(e))
        return norm(ast.fix_missing_locations(e2))

    def guard_text(self, test, pol):
        # canonical polarity: `not x`, `x is not None`, `a != b` are the negations of `x`, `x is None`, `a == b`
        from .ladder import positive
        p, neg = positive(test)
        t = self.nexpr(p)
        # `hdr is <default of next(it, default)>`: "the table has no row at all" -- the other spelling of
        # `except StopIteration: return`; being past it is not a condition on what is written
        if isinstance(p, ast.Compare) and len(p.ops) == 1 and isinstance(p.ops[0], ast.Is):
            sides = {self.nexpr(p.left), self.nexpr(p.comparators[0])}
            if 'HDR' in sides and (sides - {'HDR'}) <= getattr(self, 'hdr_defaults', set()) and len(sides) == 2:
                return 'NOHEADER' if (pol != neg) else None
        return t if (pol != neg) else 'not (%s)' % t

    # ---- traversal
    def walk(self, body, guards, region):
        for s in body:
            self.stmt(s, guards, region)

    def stmt(self, s, guards, region):
        if isinstance(s, ast.Expr) and isinstance(s.value, ast.Constant):
            return
        if isinstance(s, ast.With):
            for item in s.items:
                c = item.context_expr
                if isinstance(c, ast.Call) and isinstance(c.func, ast.Attribute) and c.func.attr == 'open':
                    mode = self.nexpr(c.args[0]) if c.args else '?'
                    self.effects.append(Effect('open', mode, guards, region, c))
                    if isinstance(item.optional_vars, ast.Name):
                        self.sinks.add(item.optional_vars.id)
            self.walk(s.body, guards, region)
            return
        if isinstance(s, ast.Try):
            # header read guarded by StopIteration: stay on the header-present path
            self.walk(s.body, guards, region)
            self.walk(s.orelse, guards, region)
            self.walk(s.finalbody, guards, 'finally')
            return
        if isinstance(s, ast.If):
            gt, gf = self.guard_text(s.test, True), self.guard_text(s.test, False)
            self.walk(s.body, guards + ([gt] if gt is not None else []), region)
            self.walk(s.orelse, guards + ([gf] if gf is not None else []), region)
            return
        if isinstance(s, (ast.For, ast.While)):
            if isinstance(s, ast.For):
                # rows = table if write_header else data(table): header emitted under the guard
                it = s.iter
                itx = self.env.get(it.id) if isinstance(it, ast.Name) else it
                tgt = s.target.id if isinstance(s.target, ast.Name) else None
                emits_in_body = self._body_emit_template(s, tgt)
                if isinstance(itx, ast.IfExp) and norm(itx.body) in self.table_names and \
                        isinstance(itx.orelse, ast.Call) and norm(itx.orelse.func) == 'data' and emits_in_body:
                    g = self.guard_text(itx.test, True)
                    for kind, payload, node in emits_in_body:
                        self.effects.append(Effect(kind, payload.replace('ROW', 'HDR'), guards + [g], region, node))
                if tgt:
                    saved = self.env.get(tgt)
                    self.env[tgt] = ast.Name(id='ROW', ctx=ast.Load())
                    self.walk(s.body, guards, 'loop')
                    if saved is None:
                        self.env.pop(tgt, None)
                    else:
                        self.env[tgt] = saved
                    return
            self.walk(s.body, guards, 'loop')
            return
        if isinstance(s, ast.Assign) and len(s.targets) == 1 and isinstance(s.targets[0], ast.Name) and \
                s.targets[0].id in self.table_names and isinstance(s.value, ast.Call) and norm(s.value.func) == 'data' and \
                s.value.args and norm(s.value.args[0]) == s.targets[0].id:
            # `if not write_header: table = data(table)`: the header row is dropped under these guards
            self.table_cond[s.targets[0].id] = list(guards)
            return
        if isinstance(s, ast.Assign) and len(s.targets) == 1 and isinstance(s.targets[0], ast.Name):
            name = s.targets[0].id
            v = s.value
            if isinstance(v, ast.Call):
                fn = norm(v.func)
                if fn.endswith('TextIOWrapper') or fn.endswith('streamwriter'):
                    enc = errors = newline = None
                    for k in v.keywords:
                        if k.arg == 'encoding':
                            enc = self.nexpr(k.value)
                        elif k.arg == 'errors':
                            errors = self.nexpr(k.value)
                        elif k.arg == 'newline':
                            newline = self.nexpr(k.value)
                    self.effects.append(Effect('wrap', 'encoding=%s, errors=%s, newline=%s' % (enc, errors, newline),
                                               guards, region, v))
                    self.sinks.add(name)
                    return
                if fn in ('csv.writer', 'csv.DictWriter') and v.args and isinstance(v.args[0], ast.Name) \
                        and v.args[0].id in self.sinks:
                    extra = ', '.join([self.nexpr(a) for a in v.args[1:]] +
                                      ['**' + self.nexpr(k.value) if k.arg is None else '%s=%s' % (k.arg, self.nexpr(k.value))
                                       for k in v.keywords])
                    self.effects.append(Effect('csv.writer', extra, guards, region, v))
                    self.sinks.add(name)
                    return
                if _is_next_hdr(v):
                    self.env[name] = ast.Name(id='HDR', ctx=ast.Load())
                    if len(v.args) == 2:
                        self.__dict__.setdefault('hdr_defaults', set()).add(self.nexpr(v.args[1]))
                    return
            # single-assignment local: inline
            if self.assign_count.get(name, 0) == 1 or region == 'loop':
                self.env[name] = _Subst(self.env).visit(copy.deepcopy(v))
            return
        if isinstance(s, ast.Expr):
            v = s.value
            if isinstance(v, (ast.Yield, ast.YieldFrom)):
                return
            if isinstance(v, ast.Call):
                self.call(v, guards, region)
            return
        if isinstance(s, ast.Return):
            return
        if isinstance(s, ast.Assert):
            return

    def _body_emit_template(self, loop, tgt):
        out = []
        for st in loop.body:
            if isinstance(st, ast.Expr) and isinstance(st.value, ast.Call):
                c = st.value
                if isinstance(c.func, ast.Attribute) and isinstance(c.func.value, ast.Name) and \
                        c.func.value.id in self.sinks and c.func.attr in ('writerow', 'write'):
                    env2 = dict(self.env)
                    env2[tgt] = ast.Name(id='ROW', ctx=ast.Load())
                    p = norm(ast.fix_missing_locations(_Subst(env2).visit(copy.deepcopy(c.args[0])))) if c.args else ''
                    out.append((c.func.attr, p, c))
        return out

    def _neg(self, g):
        return g[5:-1] if g.startswith('not (') and g.endswith(')') else 'not (%s)' % g

    def _writerows(self, c, guards, region):
        """writer.writerows(T) == one writerow per element of T: header (when T still holds it) and data rows"""
        t = c.args[0] if c.args else None
        if t is None:
            return False
        hdr_guards = None       # None: no header written; list: guards under which the header row is written
        tx = t
        if isinstance(t, ast.Name) and t.id in self.env and t.id not in self.table_names:
            tx = self.env[t.id]
        if isinstance(tx, ast.Name) and tx.id in self.table_names:
            cond = self.table_cond.get(tx.id)
            hdr_guards = [] if cond is None else [self._neg(g) for g in cond]
        elif isinstance(tx, ast.Call) and norm(tx.func) == 'data' and tx.args and norm(tx.args[0]) in self.table_names:
            hdr_guards = None
        elif isinstance(tx, ast.IfExp) and norm(tx.body) in self.table_names and isinstance(tx.orelse, ast.Call) and \
                norm(tx.orelse.func) == 'data':
            hdr_guards = [self.guard_text(tx.test, True)]
        else:
            return False
        if hdr_guards is not None:
            self.effects.append(Effect('writerow', 'HDR', list(guards) + hdr_guards, region, c))
        self.effects.append(Effect('writerow', 'ROW', guards, 'loop', c))
        return True

    def call(self, c, guards, region):
        f = c.func
        # csv.writer(sink, **args).writerows(table): the writer is created and used in one expression
        if isinstance(f, ast.Attribute) and isinstance(f.value, ast.Call) and norm(f.value.func) in ('csv.writer',) and \
                f.value.args and isinstance(f.value.args[0], ast.Name) and f.value.args[0].id in self.sinks:
            w = f.value
            extra = ', '.join([self.nexpr(a) for a in w.args[1:]] +
                              ['**' + self.nexpr(k.value) if k.arg is None else '%s=%s' % (k.arg, self.nexpr(k.value))
                               for k in w.keywords])
            self.effects.append(Effect('csv.writer', extra, guards, region, w))
            if f.attr == 'writerows' and self._writerows(c, guards, region):
                return
            payload = ', '.join(self.nexpr(a) for a in c.args)
            self.effects.append(Effect(f.attr, payload, guards, region, c))
            return
        if isinstance(f, ast.Attribute) and isinstance(f.value, ast.Name) and f.value.id in self.sinks \
                and f.attr == 'writerows' and self._writerows(c, guards, region):
            return
        if isinstance(f, ast.Attribute) and isinstance(f.value, ast.Name) and f.value.id in self.sinks \
                and f.attr in SINK_METHODS:
            payload = ', '.join(self.nexpr(a) for a in c.args)
            self.effects.append(Effect(f.attr, payload, guards, region, c))
            return
        # helper functions that receive the sink
        args = list(c.args)
        if any(isinstance(a, ast.Name) and a.id in self.sinks for a in args):
            # arguments bound to the signature where it is known: pickle.dump(obj, file, protocol) takes protocol by
            # position or by keyword
            sig = {'pickle.dump': ['obj', 'file', 'protocol', 'fix_imports', 'buffer_callback'],
                   'json.dump': ['obj', 'fp']}.get(norm(f))
            kws = [k for k in c.keywords if k.arg is not None]
            if sig is not None:
                for name in sig[len(args):]:
                    hit = [k for k in kws if k.arg == name]
                    if not hit:
                        break
                    args.append(hit[0].value)
                    kws = [k for k in kws if k is not hit[0]]
            payload = ', '.join(['SINK' if (isinstance(a, ast.Name) and a.id in self.sinks) else self.nexpr(a) for a in args] +
                                ['%s=%s' % (k.arg, self.nexpr(k.value)) for k in sorted(kws, key=lambda k: k.arg)])
            self.effects.append(Effect(norm(f), payload, guards, region, c))


def skeleton(fn, table_names=('table',)):
    return Skeleton(fn, table_names).effects


def diff(a, b):
    """Differences between two skeletons as human-readable strings (empty = equal)."""
    ka = [e.key() for e in a]
    kb = [e.key() for e in b]
    if ka == kb:
        return []
    out = []
    import difflib
    sm = difflib.SequenceMatcher(a=[repr(e) for e in a], b=[repr(e) for e in b], autojunk=False)
    for tag, i1, i2, j1, j2 in sm.get_opcodes():
        if tag == 'equal':
            continue
        out.append((tag, a[i1:i2], b[j1:j2]))
    return out
