"""Transfer functions for call expressions (builtins, itertools/operator,
petl helpers, methods on abstract values, summarised petl callees)."""
from __future__ import annotations

import ast

from .absval import (
    V, TOP, NONE, INT, BOOL, NUM, STR, CMP, CELL, UNDEF, SELF, ZERO, INTS,
    VTOP, VNONE, VINT, VBOOL, VSTR, VNUM, VCMP, VCELL, EMPTY,
    fresh, elements_of, iter_state, to_iter, advance, next_value, src_of,
    depth_trunc, MUTATOR_METHODS, MUTABLE_KINDS, _merge, tableish,
)
from .resolve import canon

STR_FUNCS = {'str', 'repr', 'format', 'chr', 'ascii', 'bytes', 'unicode', 'bin', 'hex', 'oct'}
BOOL_FUNCS = {'bool', 'isinstance', 'issubclass', 'callable', 'hasattr', 'any', 'all'}
INT_FUNCS = {'len', 'int', 'ord', 'hash', 'id'}
NUM_FUNCS = {'float', 'round', 'abs', 'sum', 'pow', 'divmod'}

CONTAINER_BUILTINS = {'list': 'list', 'tuple': 'tuple', 'set': 'set', 'frozenset': 'tuple',
                      'sorted': 'list', 'dict': 'dict', 'reversed': 'list', 'bytearray': 'list'}
CONTAINER_EXT = {'collections.deque': 'deque', 'collections.Counter': 'counter',
                 'collections.OrderedDict': 'dict', 'collections.defaultdict': 'dict',
                 'copy.copy': 'other', 'copy.deepcopy': 'other'}

STR_METHODS = {'join', 'strip', 'lstrip', 'rstrip', 'format', 'lower', 'upper', 'replace',
               'encode', 'decode', 'title', 'capitalize', 'ljust', 'rjust', 'center', 'zfill',
               'translate', 'expandtabs', 'casefold', 'swapcase', 'format_map'}
STR_LIST_METHODS = {'split', 'rsplit', 'splitlines', 'partition', 'rpartition'}
BOOL_METHODS = {'startswith', 'endswith', 'isdigit', 'isalpha', 'isspace', 'isupper', 'islower',
                'issubset', 'issuperset', 'isdisjoint', 'isalnum'}
INT_METHODS = {'index', 'count', 'find', 'rfind', 'tell', 'fileno', 'bit_length'}

# petl functions with a hand-written transfer function
def _petl_special(fa, name, e, args, kw, env):
    short = name.split(':')[-1]
    mod = name.split(':')[0]
    if name == 'petl.comparison:Comparable':
        if args and args[0] == VNONE:
            # Comparable(None): a key-domain sentinel (it equals a None key)
            return V(('CSENT', fa.site(e)))
        return VCMP
    if name == 'petl.comparison:comparable_itemgetter':
        return V(('KEYFN', 'cmp', _key_of_indices(args)))
    if name == 'petl.util.base:rowitemgetter':
        k = _keytext(e.args[1]) if len(e.args) > 1 else '?'
        return V(('KEYFN', 'cmp', k))
    if name == 'petl.util.base:rowgetter':
        return V(('KEYFN', 'native', _key_of_indices(args)))
    if name == 'petl.util.base:asindices':
        k = _keytext(e.args[1]) if len(e.args) > 1 else '?'
        return V(fresh('list', fa.site(e), VINT), ('IDX', k))
    if name in ('petl.util.base:header', 'petl.util.base:fieldnames'):
        if args:
            fa.emit('headerread', e, {'arg': args[0]})
        return V(fresh('tuple', fa.site(e), VSTR | VCELL))
    if name == 'petl.util.base:iterpeek':
        itv = to_iter(args[0]) if args else VTOP
        n_is_1 = len(e.args) < 2 and not any(k.arg == 'n' for k in e.keywords)
        fa.emit('next', e, {'iter': itv, 'has_default': not n_is_1, 'via': 'iterpeek'})
        if n_is_1:
            peek = next_value(itv)
        else:
            peek = V(fresh('list', fa.site(e), elements_of(itv)))
        if e.args and isinstance(e.args[0], ast.Name):
            fa._consume_name(e.args[0], env)
        return V(('TUPLE', (depth_trunc(peek, 1), depth_trunc(itv, 1))))
    if name == 'petl.util.base:rowgroupby':
        src = src_of(args[0]) if args else '?'
        return V(('ITER', src, 'D', V(('TUPLE', (VTOP, V(('GROUP', src)))))))
    if name in ('petl.util.base:data', 'petl.util.base:values', 'petl.util.base:records',
                'petl.util.base:dicts', 'petl.util.base:namedtuples',
                'petl.util.base:DataView', 'petl.util.base:ValuesView',
                'petl.util.base:RecordsView', 'petl.util.base:DictsView',
                'petl.util.base:NamedTuplesView'):
        return V(('DATA', src_of(args[0]) if args else '?'))
    if name in ('petl.transform.sorts:sort', 'petl.transform.sorts:SortView',
                'petl.transform.sorts:mergesort', 'petl.transform.sorts:MergeSortView'):
        k = None
        if len(e.args) > 1 and name.endswith(('sort', 'SortView')) and 'merge' not in name.lower():
            k = _keytext(e.args[1])
        for kwd in e.keywords:
            if kwd.arg == 'key':
                k = _keytext(kwd.value)
        src = '?'
        for a in args:
            s0 = src_of(a)
            if s0 != '?':
                src = s0
                break
        return V(('TABLE', src), ('SORTED', k))
    if name == 'petl.util.vis:_vis_overflow':
        # (bounded list of rows, overflow flag) when a limit is set -- decided
        # separately on _vis_overflow itself by C02 R2.3; the whole table when
        # the caller asked for no limit (lookall/displayall, by documentation)
        el = elements_of(args[0]) if args else VTOP
        return V(('TUPLE', (V(fresh('list', fa.site(e), depth_trunc(el, 2))), VBOOL)))
    if name == 'petl.util.base:Record':
        # a Record is a tuple copy of the row
        return V(fresh('tuple', fa.site(e), elements_of(args[0]) if args else VTOP))
    if name == 'petl.util.base:asdict':
        return V(fresh('dict', fa.site(e), VCELL))
    return None


def _keytext(node):
    try:
        return ' '.join(ast.unparse(node).split())
    except Exception:
        return '?'


def _key_of_indices(args):
    ks = set()
    for a in args:
        for at in a:
            if at[0] == 'IDX':
                ks.add(at[1])
    if len(ks) == 1:
        return ks.pop()
    return '?' if not ks else '|'.join(sorted(ks))


def eval_call(fa, e, env):
    res = fa.res
    f = e.func
    # ---- evaluate receiver / function value
    recv_val = None
    if isinstance(f, ast.Attribute):
        recv_val = fa.eval(f.value, env)
        fval = EMPTY
    else:
        fval = fa.eval(f, env)
    # ---- arguments
    args = []
    for a in e.args:
        v = fa.eval(a, env)
        args.append(v)
        if isinstance(a, ast.Starred) and any(x[0] == 'ITER' for x in v):
            # f(*iterator) materialises the whole iterator before f is even called
            fa.emit('consume', a, {'how': '*-unpacking', 'arg': v, 'arg_node': a.value})
    kw = {}
    for k in e.keywords:
        v = fa.eval(k.value, env)
        if k.arg is not None:
            kw[k.arg] = v
    names = set()
    refs = []
    if not (isinstance(f, ast.Name) and f.id in env and
            not any(a[0] == 'FUNC' for a in env[f.id])):
        refs = res.resolve_call(fa.fn, e)
        for r in refs:
            c = canon(r)
            if c:
                names.add(c)
    if isinstance(f, ast.Name) and f.id in env:
        for a in env[f.id]:
            if a[0] == 'FUNC' and a[1] and a[1] != 'lambda':
                names.add(a[1])
    fa.emit('call', e, {'names': names, 'args': args, 'kw': kw, 'recv': recv_val})

    # ---- local function values (key functions etc.)
    if fval:
        keyfns = [a for a in fval if a[0] == 'KEYFN']
        if keyfns:
            for a in args[:1]:
                fa.emit('rowuse', e, {'value': a, 'how': 'keyfn', 'node': e.args[0]})
            out = set()
            for kf in keyfns:
                out.add(CMP if kf[1] == 'cmp' else CELL)
            if len(keyfns) != len([a for a in fval if a != UNDEF]):
                out.add(TOP)
            return frozenset(out)

    out = None
    for nm in sorted(names):
        v = _dispatch(fa, nm, e, args, kw, env, recv_val)
        if v is None:
            out = None
            break
        out = v if out is None else _merge(out | v)
    if out is not None:
        return out

    # ---- methods on abstract receivers
    if isinstance(f, ast.Attribute) and recv_val is not None:
        return _method_call(fa, e, f, recv_val, args, kw, env)
    return VTOP


def _dispatch(fa, nm, e, args, kw, env, recv_val):
    """Abstract result of calling `nm`; None when not modelled."""
    if nm.startswith('builtin:'):
        return _builtin(fa, nm[8:], e, args, kw, env)
    if ':' in nm and nm.startswith('petl.'):
        return _petl_call(fa, nm, e, args, kw, env)
    if nm.startswith('module:'):
        return None
    return _ext(fa, nm, e, args, kw, env)


# ------------------------------------------------------------------ builtins
def _builtin(fa, b, e, args, kw, env):
    a0 = args[0] if args else None
    n0 = e.args[0] if e.args else None
    if b == 'iter':
        if a0 is None:
            return VTOP
        if len(args) == 2:
            return V(('ITER', '?', 'D', VTOP))
        fa.emit('iter', e, {'arg': a0})
        return to_iter(a0)
    if b == 'next':
        if a0 is None:
            return VTOP
        has_default = len(args) > 1
        fa.emit('next', e, {'iter': a0, 'has_default': has_default})
        v = next_value(a0) or VTOP
        if has_default:
            v = v | args[1]
        if isinstance(n0, ast.Name) and n0.id in env:
            env[n0.id] = advance(env[n0.id])
        return v
    if b in CONTAINER_BUILTINS:
        kind = CONTAINER_BUILTINS[b]
        if a0 is None:
            return V(fresh(kind, fa.site(e), EMPTY))
        _consume(fa, b, e, n0, a0, env, kw)
        if b in ('tuple', 'list'):
            fa.emit('rowuse', e, {'value': a0, 'how': b, 'node': n0})
        el = elements_of(a0)
        if b == 'dict':
            # dict(pairs) / dict(mapping)
            vals = set()
            for at in el:
                if at[0] == 'TUPLE' and len(at[1]) == 2:
                    vals |= at[1][1]
                else:
                    vals.add(TOP)
            for v in kw.values():
                vals |= v
            return V(fresh('dict', fa.site(e), frozenset(vals)))
        if b == 'sorted':
            fa.emit('sortcall', e, {'how': 'sorted', 'key': kw.get('key'), 'arg': a0})
        return V(fresh(kind, fa.site(e), el))
    if b in ('min', 'max'):
        if len(args) == 1:
            _consume(fa, b, e, n0, a0, env, kw)
            fa.emit('sortcall', e, {'how': b, 'key': kw.get('key'), 'arg': a0})
            v = elements_of(a0)
            if 'default' in kw:
                v = v | kw['default']
            return v or VTOP
        fa.emit('sortcall', e, {'how': b, 'key': kw.get('key'), 'arg': None, 'args': args})
        out = EMPTY
        for a in args:
            out = out | a
        return out or VTOP
    if b in INT_FUNCS:
        if b == 'len' and a0 is not None:
            _consume(fa, b, e, n0, a0, env, kw)
            fa.emit('rowuse', e, {'value': a0, 'how': 'len', 'node': n0})
        return VINT
    if b in NUM_FUNCS:
        if b == 'sum' and a0 is not None:
            _consume(fa, b, e, n0, a0, env, kw)
            if all(at in INTS for at in elements_of(a0)) and elements_of(a0):
                return VINT
        if b == 'abs' and a0 is not None and a0 <= INTS:
            return VINT
        return VNUM
    if b in STR_FUNCS:
        if b in ('str', 'repr', 'format', 'ascii', 'unicode') and a0 is not None:
            fa.emit('render', e, {'arg': a0, 'how': b})
        return VSTR
    if b in BOOL_FUNCS:
        if b in ('any', 'all') and a0 is not None:
            _consume(fa, b, e, n0, a0, env, kw)
        if b == 'bool' and a0 is not None:
            fa.truthtest(n0, a0)
        return VBOOL
    if b in ('range', 'xrange'):
        return V(fresh('range', fa.site(e), VINT))
    if b == 'enumerate':
        if a0 is None:
            return VTOP
        if any(a[0] == 'SELFATTR' for a in a0):
            fa.emit('iter', e, {'arg': a0})
        st = iter_state(a0)
        return V(('ITER', src_of(a0), 'H' if st == 'H' else 'D',
                  V(('TUPLE', (VINT, depth_trunc(elements_of(a0), 2))))))
    if b == 'zip':
        if not args:
            return V(('ITER', '?', 'D', VTOP))
        _zipped_streams(fa, e, args)
        if any(isinstance(x, ast.Starred) for x in e.args):
            el = set()
            for x, xn in zip(args, e.args):
                el |= elements_of(elements_of(x)) if isinstance(xn, ast.Starred) else elements_of(x)
            return V(('ITER', src_of(a0), 'D', V(fresh('ziptuple', fa.site(e), depth_trunc(frozenset(el), 2)))))
        sts = [iter_state(a) for a in args]
        st = 'H' if all(s == 'H' for s in sts) else 'D'
        if len(args) <= 4:
            el = V(('TUPLE', tuple(depth_trunc(elements_of(a), 2) for a in args)))
        else:
            el = V(fresh('tuple', fa.site(e), frozenset().union(*[elements_of(a) for a in args])))
        return V(('ITER', src_of(a0), st, el))
    if b == 'map':
        if len(args) < 2:
            return VTOP
        fv = args[0]
        el = elements_of(args[1])
        res = _apply_func(fa, fv, el, e)
        st = iter_state(args[1])
        return V(('ITER', src_of(args[1]), 'H' if st == 'H' else 'D', depth_trunc(res, 2)))
    if b == 'filter':
        if len(args) < 2:
            return VTOP
        return V(('ITER', src_of(args[1]), 'D', depth_trunc(elements_of(args[1]), 2)))
    if b == 'object':
        return V(('SENT', fa.site(e)))
    if b == 'slice':
        return VTOP
    if b == 'getattr':
        return VTOP
    if b == 'type':
        return V(('FUNC', 'type'))
    if b == 'open':
        return V(fresh('file', fa.site(e), VSTR))
    if b == 'print':
        return VNONE
    if b == 'super':
        return VTOP
    if b == 'vars' or b == 'locals' or b == 'globals':
        return VTOP
    if b in ('setattr', 'delattr'):
        if a0 is not None:
            fa.mutation(e, n0, a0, b, env)
        return VNONE
    return None


def _zipped_streams(fa, e, args):
    """zip(it, col): an argument paired row by row with a table iterator is itself
    a row-aligned stream input (e.g. the `col` of addcolumn): mark it like iter()."""
    has_table_iter = any(any(a[0] == 'ITER' and a[3] is None for a in x) for x in args)
    if not has_table_iter:
        return
    for x in args:
        if any(a[0] in ('ARG', 'SELFATTR') for a in x) and not any(a[0] == 'ITER' for a in x):
            fa.emit('iter', e, {'arg': x, 'via': 'zip'})


def _consume(fa, how, e, n0, a0, env, kw):
    fa.emit('consume', e, {'how': how, 'arg': a0, 'arg_node': n0})
    if n0 is not None:
        fa._consume_name(n0, env)


def _apply_func(fa, fv, el, e):
    out = set()
    for a in fv:
        if a[0] == 'FUNC':
            n = a[1]
            if n in ('builtin:str', 'builtin:repr', 'builtin:unicode'):
                out.add(STR)
            elif n in ('builtin:int', 'builtin:len'):
                out.add(INT)
            elif n in ('builtin:tuple', 'builtin:list'):
                out.add(fresh('tuple' if n.endswith('tuple') else 'list', fa.site(e), elements_of(el)))
            elif n == 'builtin:iter':
                out |= to_iter(el)
            elif n == 'petl.comparison:Comparable':
                out.add(CMP)
            else:
                out.add(TOP)
        elif a[0] == 'KEYFN':
            out.add(CMP if a[1] == 'cmp' else CELL)
        else:
            out.add(TOP)
    return frozenset(out) or VTOP


# ------------------------------------------------------------------ external
def _ext(fa, nm, e, args, kw, env):
    a0 = args[0] if args else None
    n0 = e.args[0] if e.args else None
    if nm == 'itertools.islice':
        if a0 is None:
            return VTOP
        if any(tableish(a) or a == SELF for a in a0):
            fa.emit('iter', e, {'arg': a0})
        itv = to_iter(a0)
        start_pos = None
        if len(e.args) >= 3:
            s = e.args[1]
            if isinstance(s, ast.Constant) and isinstance(s.value, int):
                start_pos = s.value
            elif isinstance(s, ast.Constant) and s.value is None:
                start_pos = 0
        if any(isinstance(x, ast.Starred) for x in e.args[1:]):
            # islice(it, *sliceargs): user supplied window; may be empty
            return frozenset(('ITER', a[1], 'D' if a[3] is not None or a[2] == 'D' else 'H', a[3])
                             if a[0] == 'ITER' else a for a in itv)
        stop = None
        if len(e.args) == 2:
            stop = e.args[1]
        elif len(e.args) >= 3:
            stop = e.args[2]
        if stop is not None and not (isinstance(stop, ast.Constant) and stop.value is None):
            # a finite window: consuming it does not drain the source
            itv = frozenset(('ITER', 'bounded:' + a[1], a[2], a[3]) if a[0] == 'ITER' and
                            not a[1].startswith('bounded:') else a for a in itv)
        if start_pos is not None and start_pos >= 1:
            return advance(itv)
        return itv
    if nm == 'itertools.chain':
        if not args:
            return V(('ITER', '?', 'D', EMPTY))
        first = args[0]
        st = 'D'
        fn0 = e.args[0]
        if isinstance(fn0, (ast.List, ast.Tuple)) and fn0.elts:
            st = 'H'
        elif iter_state(first) == 'H':
            st = 'H'
        # table-shaped when every part iterates one source
        if all(all(a[0] in ('ITER', 'ARG', 'TABLE', 'SELFATTR', 'DATA') and (a[0] != 'ITER' or a[3] is None)
                   for a in x) for x in args) and not any(isinstance(x, ast.Starred) for x in e.args):
            st0 = iter_state(first)
            return V(('ITER', src_of(first), 'H' if st0 == 'H' else 'D', None))
        el = set()
        for x, xn in zip(args, e.args):
            if isinstance(xn, ast.Starred):
                el |= elements_of(elements_of(x))
            else:
                el |= elements_of(x)
        src = '?'
        for x in args:
            s = src_of(x)
            if s != '?':
                src = s
        return V(('ITER', src, st, depth_trunc(frozenset(el), 2)))
    if nm == 'itertools.chain.from_iterable':
        return V(('ITER', src_of(a0) if a0 else '?', 'D', depth_trunc(elements_of(elements_of(a0)), 2) if a0 else VTOP))
    if nm == 'itertools.groupby':
        if a0 is None:
            return VTOP
        key = kw.get('key') or (args[1] if len(args) > 1 else None)
        kv = VTOP
        if key is not None:
            kv = _apply_func(fa, key, elements_of(a0), e)
        src = src_of(a0)
        st = iter_state(a0)
        fa.emit('groupby', e, {'arg': a0, 'key': key})
        return V(('ITER', src, 'H' if st == 'H' else 'D',
                  V(('TUPLE', (depth_trunc(kv, 2), V(('GROUP', src)))))))
    if nm == 'itertools.zip_longest':
        if not args:
            return VTOP
        fill = kw.get('fillvalue', VNONE)
        _zipped_streams(fa, e, args)
        if any(isinstance(x, ast.Starred) for x in e.args):
            el = set(fill)
            for x, xn in zip(args, e.args):
                el |= elements_of(elements_of(x)) if isinstance(xn, ast.Starred) else elements_of(x)
            return V(('ITER', src_of(a0), 'D', V(fresh('ziptuple', fa.site(e), depth_trunc(frozenset(el), 2)))))
        sts = [iter_state(a) for a in args]
        st = 'H' if any(s == 'H' for s in sts) else 'D'
        if len(args) <= 4:
            el = V(('TUPLE', tuple(depth_trunc(elements_of(a) | fill, 2) for a in args)))
        else:
            el = VTOP
        return V(('ITER', src_of(a0), st, el))
    if nm in ('itertools.tee',):
        return V(fresh('tuple', fa.site(e), to_iter(a0) if a0 else VTOP))
    if nm in ('itertools.filterfalse', 'itertools.takewhile', 'itertools.dropwhile'):
        if len(args) >= 2:
            return V(('ITER', src_of(args[1]), 'D', depth_trunc(elements_of(args[1]), 2)))
        return VTOP
    if nm == 'itertools.compress':
        return V(('ITER', src_of(a0) if a0 else '?', 'D', depth_trunc(elements_of(a0), 2) if a0 else VTOP))
    if nm == 'itertools.starmap':
        return V(('ITER', src_of(args[1]) if len(args) > 1 else '?', 'D', VTOP))
    if nm in ('itertools.cycle', 'itertools.repeat', 'itertools.count'):
        return V(('ITER', '?', 'H', elements_of(a0) if (a0 and nm.endswith('cycle')) else (a0 or VINT)))
    if nm in ('itertools.product', 'itertools.permutations', 'itertools.combinations',
              'itertools.combinations_with_replacement'):
        # these read every input completely (into tuples) before the first result is produced
        el = set()
        for x, xn in zip(args, e.args):
            _consume(fa, nm, e, xn, x, env, kw)
            el |= elements_of(x)
        return V(('ITER', 'local:product', 'D', V(fresh('tuple', fa.site(e), depth_trunc(frozenset(el), 2) or VTOP))))
    if nm == 'heapq.merge':
        fa.emit('sortcall', e, {'how': 'heapq.merge', 'key': kw.get('key'), 'arg': a0, 'args': args})
        el = set()
        for x, xn in zip(args, e.args):
            if isinstance(xn, ast.Starred):
                el |= elements_of(elements_of(x))
            else:
                el |= elements_of(x)
        return V(('ITER', 'merge', 'D', depth_trunc(frozenset(el), 2) or VTOP))
    if nm.startswith('heapq.'):
        if a0 is not None and nm in ('heapq.heappush', 'heapq.heappop', 'heapq.heapify',
                                     'heapq.heapreplace', 'heapq.heappushpop'):
            fa.mutation(e, n0, a0, nm, env, added=args[1] if len(args) > 1 else None)
            if nm in ('heapq.heappop', 'heapq.heapreplace', 'heapq.heappushpop'):
                return elements_of(a0) or VTOP
            return VNONE
        return VTOP
    if nm in ('random.shuffle',):
        if a0 is not None:
            fa.mutation(e, n0, a0, nm, env)
        return VNONE
    if nm in ('bisect.insort', 'bisect.insort_left', 'bisect.insort_right'):
        if a0 is not None:
            fa.mutation(e, n0, a0, nm, env, added=args[1] if len(args) > 1 else None)
        return VNONE
    if nm in CONTAINER_EXT:
        kind = CONTAINER_EXT[nm]
        if nm == 'collections.defaultdict':
            fv = a0 or EMPTY
            el = set()
            for a in fv:
                if a[0] == 'FUNC' and a[1] in ('builtin:list', 'builtin:set', 'builtin:dict'):
                    el.add(fresh(a[1][8:], fa.site(e) + 'd', EMPTY))
                elif a[0] == 'FUNC' and a[1] == 'builtin:int':
                    el.add(INT)
                else:
                    el.add(TOP)
            return V(fresh('dict', fa.site(e), frozenset(el)))
        if a0 is None:
            return V(fresh(kind, fa.site(e), EMPTY))
        if nm in ('copy.copy', 'copy.deepcopy'):
            return V(fresh('other', fa.site(e), elements_of(a0)))
        _consume(fa, nm, e, n0, a0, env, kw)
        if nm == 'collections.Counter':
            return V(fresh('counter', fa.site(e), VINT))
        return V(fresh(kind, fa.site(e), elements_of(a0)))
    if nm == 'collections.namedtuple':
        return V(('FUNC', 'namedtuple'))
    if nm in ('operator.itemgetter',):
        return V(('KEYFN', 'native', _key_of_indices(args)))
    if nm in ('operator.attrgetter', 'functools.partial'):
        return V(('FUNC', nm))
    if nm.startswith('operator.'):
        op = nm[9:]
        if op in ('lt', 'le', 'gt', 'ge') and len(args) == 2:
            fa.emit('order', e, {'op': op, 'left': args[0], 'right': args[1],
                                 'left_node': e.args[0], 'right_node': e.args[1]})
            return VBOOL
        if op in ('eq', 'ne', 'contains', 'is_', 'is_not', 'not_', 'truth'):
            return VBOOL
        return VTOP
    if nm == 'functools.reduce':
        if len(args) > 1:
            _consume(fa, nm, e, e.args[1], args[1], env, kw)
        return VTOP
    if nm in ('pickle.load', 'pickle.loads', 'json.load', 'json.loads'):
        return V(fresh('other', fa.site(e), VTOP))
    if nm in ('pickle.dump', 'pickle.dumps', 'json.dump', 'json.dumps'):
        return VNONE if nm.endswith('dump') else VSTR
    if nm.startswith('re.'):
        return VTOP
    if nm.startswith('str.') or nm.startswith('builtin:str.'):
        return VSTR
    if nm == 'tempfile.NamedTemporaryFile':
        return V(fresh('file', fa.site(e), VSTR))
    if nm.startswith('math.') or nm.startswith('time.'):
        return VNUM
    if nm.startswith('random.'):
        return VNUM if nm.split('.')[-1] in ('random', 'randint', 'uniform', 'gauss', 'randrange') else VTOP
    return None


# ---------------------------------------------------------------------- petl
def _petl_call(fa, nm, e, args, kw, env):
    sp = _petl_special(fa, nm, e, args, kw, env)
    if sp is not None:
        return sp
    an = fa.an
    mod, _, q = nm.partition(':')
    m = an.project.modules.get(mod)
    if m is None:
        return None
    # a class: constructor
    if q in m.classes:
        ci = m.classes[q]
        if ci.fq in an.view_classes():
            src = '?'
            for a in args:
                s = src_of(a)
                if s != '?':
                    src = s
                    break
            return V(('TABLE', src))
        if q == '_Keyed':
            return V(fresh('tuple', fa.site(e), VTOP))
        return V(fresh('other', fa.site(e), EMPTY))
    fn = m.functions.get(q)
    if fn is None:
        return None
    summ = an.summary(fn)
    if summ is None:
        return VTOP
    # bind actuals to formals
    actual = _bind_actuals(fn, e, args, kw, bound=_is_bound_call(fa, e, fn))
    # interprocedural mutation
    for p in summ.mutates:
        if p in actual:
            av, anode = actual[p]
            fa.mutation(e, anode, av, 'call:' + fn.name + '(' + p + ')', env)
    return _subst(summ.ret, actual)


def _is_bound_call(fa, e, fn):
    if fn.cls is None:
        return False
    f = e.func
    if isinstance(f, ast.Attribute):
        # self.m(...) / super().m(...) / obj.m(...) are bound; Class.m(obj) is not
        base = f.value
        if isinstance(base, ast.Name):
            refs = fa.res.resolve_name(fa.fn, base.id)
            if any(r.kind == 'class' for r in refs):
                return False
        return True
    return False


def _bind_actuals(fn, e, args, kw, bound):
    params = list(fn.posparams)
    if bound and params:
        params = params[1:]
    actual = {}
    i = 0
    for a, an in zip(args, e.args):
        if isinstance(an, ast.Starred):
            # spreads over the remaining positionals
            for p in params[i:]:
                actual[p] = (elements_of(a) or VTOP, an)
            if fn.vararg:
                actual[fn.vararg] = (a, an)
            i = len(params)
            continue
        if i < len(params):
            actual[params[i]] = (a, an)
        elif fn.vararg:
            prev = actual.get(fn.vararg)
            el = a if prev is None else (prev[0] | a)
            actual[fn.vararg] = (el, an)
        i += 1
    if fn.vararg and fn.vararg in actual and not any(isinstance(an, ast.Starred) for an in e.args):
        v, an = actual[fn.vararg]
        actual[fn.vararg] = (V(fresh('tuple', 'varargs', v)), an)
    for k in e.keywords:
        if k.arg is not None and k.arg in kw:
            actual[k.arg] = (kw[k.arg], k.value)
    return actual


def _subst(v, actual, depth=0):
    """Instantiate a callee summary with the actual arguments."""
    if depth > 3:
        return v
    out = set()
    for a in v:
        k = a[0]
        if k == 'ARG':
            if a[1] in actual:
                out |= actual[a[1]][0]
            else:
                out.add(TOP)   # defaulted parameter
        elif k == 'FRESH' and a[3]:
            out.add(('FRESH', a[1], a[2], _subst(a[3], actual, depth + 1)))
        elif k == 'TUPLE':
            out.add(('TUPLE', tuple(_subst(x, actual, depth + 1) for x in a[1])))
        elif k == 'ITER' and a[1] in actual and a[3] is None:
            for b in actual[a[1]][0]:
                if b[0] == 'ITER':
                    out.add(('ITER', b[1], 'D' if a[2] == 'D' else b[2], b[3]))
                elif b[0] in ('ARG', 'TABLE', 'SELFATTR'):
                    out.add(('ITER', src_of(V(b)), a[2], None))
                elif b[0] == 'DATA':
                    out.add(('ITER', b[1], 'D', None))
                elif b[0] == 'FRESH':
                    out.add(('ITER', 'local', 'D', b[3]))
                elif b[0] == 'GROUP':
                    out.add(('ITER', b[1], a[2], V(('ROW', b[1]))))
                elif b != UNDEF:
                    out.add(('ITER', '?', a[2], VTOP))
        elif k == 'ITER' and a[3]:
            out.add(('ITER', a[1], a[2], _subst(a[3], actual, depth + 1)))
        elif k in ('ROW', 'HDR') and a[1] in actual:
            for b in actual[a[1]][0]:
                if b[0] in ('ARG', 'TABLE', 'DATA', 'SELFATTR', 'GROUP'):
                    out.add((k if b[0] not in ('DATA', 'GROUP') else 'ROW', src_of(V(b))))
                elif b[0] == 'ITER':
                    if b[3] is None:
                        out.add(('ROW' if (k == 'ROW' or b[2] == 'D') else 'HDR', b[1]))
                    else:
                        out |= b[3]
                elif b[0] == 'FRESH':
                    out |= b[3] or {UNDEF}
                elif b[0] in ('ROW', 'HDR'):
                    out.add(CELL)
                elif b != UNDEF:
                    out.add(TOP)
        elif k in ('TABLE', 'DATA', 'GROUP') and a[1] in actual:
            s = src_of(actual[a[1]][0])
            out.add((k, s if s != '?' else a[1]))
        elif k in ('SELFATTR', 'SELF'):
            out.add(TOP)
        else:
            out.add(a)
    return _merge(frozenset(out)) or VTOP


# ------------------------------------------------------------------- methods
def _method_call(fa, e, f, recv, args, kw, env):
    meth = f.attr
    if meth == 'format' and isinstance(f.value, ast.Constant):
        for av in list(args) + list(kw.values()):
            if av is not None:
                fa.emit('render', e, {'arg': av, 'how': 'str.format'})
    a0 = args[0] if args else None
    recv_clean = frozenset(a for a in recv if a != UNDEF)
    if meth in MUTATOR_METHODS:
        # dict.get-like readers are not here; these change the receiver
        added = None
        if meth in ('append', 'add', 'appendleft'):
            added = a0
        elif meth == 'insert':
            added = args[1] if len(args) > 1 else None
        elif meth in ('extend', 'update', 'extendleft'):
            added = elements_of(a0) if a0 else None
            if a0 is not None:
                _consume(fa, '.' + meth, e, e.args[0], a0, env, kw)
        elif meth == 'setdefault':
            added = args[1] if len(args) > 1 else VNONE
        if meth == 'sort':
            fa.emit('sortcall', e, {'how': '.sort', 'key': kw.get('key'), 'arg': recv})
        # string receivers do not mutate
        if recv_clean and recv_clean <= {STR}:
            return VSTR
        fa.mutation(e, f.value, recv, '.' + meth, env, added=added)
        if meth in ('pop', 'popleft', 'popitem'):
            v = elements_of(frozenset(a for a in recv_clean if a[0] in ('FRESH', 'TUPLE')))
            if len(args) > 1:
                v = v | args[1]
            if any(a[0] not in ('FRESH', 'TUPLE') for a in recv_clean):
                v = v | VTOP
            return v or VTOP
        if meth == 'setdefault':
            cur = fa.eval_pure(f.value, env)
            return (elements_of(frozenset(a for a in cur if a[0] == 'FRESH')) | (added or EMPTY)) or VTOP
        return VNONE
    if recv_clean and recv_clean <= {STR}:
        if meth in STR_METHODS:
            return VSTR
        if meth in STR_LIST_METHODS:
            return V(fresh('list', fa.site(e), VSTR))
        if meth in BOOL_METHODS:
            return VBOOL
        if meth in INT_METHODS:
            return VINT
    if meth == 'join' and isinstance(f.value, ast.Constant):
        if a0 is not None:
            _consume(fa, 'join', e, e.args[0], a0, env, kw)
        return VSTR
    if meth in BOOL_METHODS:
        return VBOOL
    if meth in INT_METHODS:
        return VINT
    fresh_recv = [a for a in recv_clean if a[0] == 'FRESH']
    if fresh_recv and len(fresh_recv) == len(recv_clean):
        el = elements_of(recv_clean)
        if meth == 'get':
            d = args[1] if len(args) > 1 else VNONE
            return (el | d) or VTOP
        if meth == 'values':
            return V(fresh('list', fa.site(e), el))
        if meth == 'keys':
            return V(fresh('list', fa.site(e), VTOP))
        if meth == 'items':
            return V(fresh('list', fa.site(e), V(('TUPLE', (VTOP, depth_trunc(el, 2))))))
        if meth == 'copy':
            return frozenset(fresh(a[1], fa.site(e), a[3]) for a in fresh_recv)
        if meth == 'most_common':
            return V(fresh('list', fa.site(e), V(('TUPLE', (VTOP, VINT)))))
        if meth in ('union', 'intersection', 'difference', 'symmetric_difference'):
            return V(fresh('set', fa.site(e), el))
        if meth in STR_METHODS and any(a[1] == 'str' for a in fresh_recv):
            return VSTR
    if meth == 'copy':
        return V(fresh('other', fa.site(e), elements_of(recv_clean)))
    if meth in ('strip', 'lower', 'upper', 'format', 'encode', 'decode', 'lstrip', 'rstrip',
                'replace', 'title'):
        return V(STR, TOP) if not (recv_clean <= {STR}) else VSTR
    if meth in ('split', 'rsplit', 'splitlines'):
        return V(fresh('list', fa.site(e), VSTR))
    if meth in ('__getitem__',):
        return VTOP
    return VTOP
