"""Semantics-preserving normalisations applied to the functions of the analysed package before any rule runs.

Peeling of literal tails:  `for x in chain(it, (c,)): BODY`  ==  `for x in it: BODY` followed by `x = c; BODY`
(no `break` / `else` at the level of the loop, body `continue`s end the peeled pass).  The look-ahead operators use a
trailing None for "no next row"; written as a loop over chain(...) the last pass looks, path-insensitively, like any
other pass.  The peeled form is the one the rules were written against (a loop and a copy of its body for the last row).

Statement `W.writerows(ROWS)`  ==  `for r in ROWS: W.writerow(r)` (what csv writers do).

Nothing is executed.
"""
from __future__ import annotations

import ast
import copy


def _chain_tail(e):
    """(rest iterables, [tail element nodes]) if e is chain(a, ..., <literal tuple/list>) else None"""
    if not (isinstance(e, ast.Call) and not e.keywords):
        return None
    f = e.func
    name = f.id if isinstance(f, ast.Name) else (f.attr if isinstance(f, ast.Attribute) else None)
    if name != 'chain' or len(e.args) < 2:
        return None
    last = e.args[-1]
    if not isinstance(last, (ast.Tuple, ast.List)) or any(isinstance(x, ast.Starred) for x in last.elts):
        return None
    if len(last.elts) == 0 or len(last.elts) > 2:
        return None
    if any(isinstance(a, ast.Starred) for a in e.args):
        return None
    return list(e.args[:-1]), list(last.elts)


class _LevelFinder(ast.NodeVisitor):
    """break / continue that belong to the loop whose body is visited (not to nested loops)"""
    def __init__(self):
        self.breaks = 0
        self.continues = []

    def visit_For(self, node):
        for s in node.orelse:
            self.visit(s)

    visit_While = visit_For
    visit_AsyncFor = visit_For

    def visit_FunctionDef(self, node):
        return

    visit_AsyncFunctionDef = visit_FunctionDef
    visit_Lambda = visit_FunctionDef
    visit_ClassDef = visit_FunctionDef

    def visit_Break(self, node):
        self.breaks += 1

    def visit_Continue(self, node):
        self.continues.append(node)


def _peel(loop):
    ct = _chain_tail(loop.iter)
    if ct is None or loop.orelse:
        return None
    lf = _LevelFinder()
    for s in loop.body:
        lf.visit(s)
    if lf.breaks or lf.continues:
        return None         # (a body `continue` would need a jump to the end of the peeled copy)
    rest, tail = ct
    if len(rest) == 1:
        it = rest[0]
    else:
        it = ast.copy_location(ast.Call(func=loop.iter.func, args=rest, keywords=[]), loop.iter)
    new_loop = ast.copy_location(ast.For(target=loop.target, iter=it, body=loop.body, orelse=[],
                                         type_comment=None), loop)
    out = [new_loop]
    for c in tail:
        tgt = copy.deepcopy(loop.target)
        for x in ast.walk(tgt):
            if isinstance(x, (ast.Name, ast.Tuple, ast.List, ast.Attribute, ast.Subscript, ast.Starred)) and hasattr(x, 'ctx'):
                x.ctx = ast.Store()
        out.append(ast.copy_location(ast.Assign(targets=[tgt], value=c, type_comment=None), c))
        out.extend(copy.deepcopy(loop.body))
    for n in out:
        ast.fix_missing_locations(n)
    return out


def _writerows(s, taken):
    """`W.writerows(ROWS)` as a statement  ==  `for r in ROWS: W.writerow(r)`  (csv writers: writerows is that loop);
    a receiver that is not a plain name is evaluated once into a temporary first."""
    if not (isinstance(s, ast.Expr) and isinstance(s.value, ast.Call)):
        return None
    c = s.value
    if not (isinstance(c.func, ast.Attribute) and c.func.attr == 'writerows' and len(c.args) == 1 and not c.keywords):
        return None
    if isinstance(c.args[0], ast.Starred):
        return None
    out = []
    recv = c.func.value
    if not isinstance(recv, (ast.Name, ast.Attribute)):
        nm = '_writer'
        while nm in taken:
            nm += '_'
        taken.add(nm)
        out.append(ast.copy_location(ast.Assign(targets=[ast.Name(id=nm, ctx=ast.Store())], value=recv, type_comment=None), s))
        recv = ast.Name(id=nm, ctx=ast.Load())
    var = '_row'
    while var in taken:
        var += '_'
    taken.add(var)
    call = ast.Call(func=ast.Attribute(value=recv, attr='writerow', ctx=ast.Load()),
                    args=[ast.Name(id=var, ctx=ast.Load())], keywords=[])
    loop = ast.For(target=ast.Name(id=var, ctx=ast.Store()), iter=c.args[0], body=[ast.Expr(value=call)], orelse=[],
                   type_comment=None)
    out.append(ast.copy_location(loop, s))
    for n in out:
        for x in ast.walk(n):
            if not hasattr(x, 'lineno'):
                ast.copy_location(x, s)
        ast.fix_missing_locations(n)
    return out


class _Peeler(ast.NodeTransformer):
    def __init__(self, taken=None):
        self.n = 0
        self.taken = taken if taken is not None else set()

    def _block(self, stmts):
        out = []
        for s in stmts:
            s = self.visit(s)
            if isinstance(s, ast.For):
                p = _peel(s)
                if p is not None:
                    self.n += 1
                    out.extend(p)
                    continue
            w = _writerows(s, self.taken)
            if w is not None:
                self.n += 1
                out.extend(w)
                continue
            out.append(s)
        return out

    def generic_visit(self, node):
        for field in ('body', 'orelse', 'finalbody'):
            blk = getattr(node, field, None)
            if isinstance(blk, list) and blk and isinstance(blk[0], ast.stmt):
                setattr(node, field, self._block(blk))
        if isinstance(node, ast.Try):
            for h in node.handlers:
                h.body = self._block(h.body)
        return node


def _spread_literal_tuples(fn_node):
    """`t = (x, y)` ... `f(a, *t)` is `f(a, x, y)` when t is bound once to a tuple / list display of plain names or
    constants, never stored into or mutated, and none of the names is re-bound in the function.  Returns the number of calls
    rewritten."""
    own = []
    stack = list(fn_node.body)
    while stack:
        x = stack.pop()
        own.append(x)
        for c in ast.iter_child_nodes(x):
            if not isinstance(c, (ast.FunctionDef, ast.AsyncFunctionDef, ast.Lambda, ast.ClassDef)):
                stack.append(c)
    stores = {}
    for x in own:
        if isinstance(x, ast.Name) and isinstance(x.ctx, (ast.Store, ast.Del)):
            stores[x.id] = stores.get(x.id, 0) + 1
    params = {a.arg for a in ast.walk(fn_node.args) if isinstance(a, ast.arg)}
    lits = {}
    for x in own:
        if isinstance(x, ast.Assign) and len(x.targets) == 1 and isinstance(x.targets[0], ast.Name) and \
                isinstance(x.value, (ast.Tuple, ast.List)) and stores.get(x.targets[0].id) == 1 and \
                x.targets[0].id not in params and \
                all(isinstance(e, (ast.Name, ast.Constant)) for e in x.value.elts) and \
                all(stores.get(e.id, 0) == 0 for e in x.value.elts if isinstance(e, ast.Name)):
            lits[x.targets[0].id] = x.value
    if not lits:
        return 0
    for x in own:
        # any other use than `*t` in a call (a method call, a subscript store, being passed on) disqualifies the name
        if isinstance(x, ast.Name) and isinstance(x.ctx, ast.Load) and x.id in lits:
            x._spread_candidate = True
    used_otherwise = set()
    starred = []
    for x in own:
        if isinstance(x, ast.Call):
            for i, a in enumerate(x.args):
                if isinstance(a, ast.Starred) and isinstance(a.value, ast.Name) and a.value.id in lits:
                    starred.append((x, i, a.value))
    star_ids = {id(n) for _, _, n in starred}
    for x in own:
        if isinstance(x, ast.Name) and isinstance(x.ctx, ast.Load) and x.id in lits and id(x) not in star_ids:
            used_otherwise.add(x.id)
    n = 0
    import copy as _copy
    for call, i, nm in sorted(starred, key=lambda t: -t[1]):
        if nm.id in used_otherwise:
            continue
        call.args[i:i + 1] = [_copy.deepcopy(e) for e in lits[nm.id].elts]
        for e in call.args:
            ast.copy_location(e, call) if not hasattr(e, 'lineno') else None
        n += 1
    if n:
        ast.fix_missing_locations(fn_node)
    return n


class _DecideCounter(ast.NodeTransformer):
    """replace tests of the enumerate counter against zero by their value for the first pass (zero=True) or for the later
    passes (zero=False) and fold the constants away"""
    def __init__(self, name, zero):
        self.name = name
        self.zero = zero
        self.ok = True

    def _is_i(self, e):
        return isinstance(e, ast.Name) and e.id == self.name

    def visit_Compare(self, node):
        self.generic_visit(node)
        if len(node.ops) == 1 and self._is_i(node.left) and isinstance(node.comparators[0], ast.Constant) and \
                isinstance(node.comparators[0].value, int) and not isinstance(node.comparators[0].value, bool):
            c = node.comparators[0].value
            op = type(node.ops[0])
            table0 = {ast.Gt: 0 > c, ast.GtE: 0 >= c, ast.Lt: 0 < c, ast.LtE: 0 <= c, ast.Eq: 0 == c, ast.NotEq: 0 != c}
            # later passes: i >= 1
            later = {ast.Gt: True if c <= 0 else None, ast.GtE: True if c <= 1 else None, ast.Lt: False if c <= 1 else None,
                     ast.LtE: False if c <= 0 else None, ast.Eq: False if c <= 0 else None, ast.NotEq: True if c <= 0 else None}
            v = table0.get(op) if self.zero else later.get(op)
            if v is None:
                self.ok = False
                return node
            return ast.copy_location(ast.Constant(value=bool(v)), node)
        return node

    def visit_UnaryOp(self, node):
        self.generic_visit(node)
        if isinstance(node.op, ast.Not):
            if self._is_i(node.operand):
                return ast.copy_location(ast.Constant(value=self.zero), node)
            if isinstance(node.operand, ast.Constant) and isinstance(node.operand.value, bool):
                return ast.copy_location(ast.Constant(value=not node.operand.value), node)
        return node

    def visit_BoolOp(self, node):
        self.generic_visit(node)
        is_and = isinstance(node.op, ast.And)
        vals = []
        for v in node.values:
            if self._is_i(v):
                v = ast.copy_location(ast.Constant(value=not self.zero), v)
            if isinstance(v, ast.Constant) and isinstance(v.value, bool):
                if v.value != is_and:
                    return ast.copy_location(ast.Constant(value=v.value), node)     # decides the whole expression
                continue
            vals.append(v)
        if not vals:
            return ast.copy_location(ast.Constant(value=is_and), node)
        if len(vals) == 1:
            return vals[0]
        node.values = vals
        return node

    def visit_If(self, node):
        self.generic_visit(node)
        t = node.test
        if self._is_i(t):
            t = ast.Constant(value=not self.zero)
        if isinstance(t, ast.Constant) and isinstance(t.value, bool):
            return (node.body if t.value else node.orelse) or [ast.copy_location(ast.Pass(), node)]
        return node


def _peel_enumerate(fn_node):
    """`for i, x in enumerate(T): BODY` where BODY tests i against 0 (the header travels through the row loop) becomes
    `it = iter(T); x = next(it, _NOHEADER); if x is not _NOHEADER: BODY[i == 0]; for x in it: BODY[i > 0]` -- the form the
    readers and writers of petl have, and the one the rules know.  Only when i is used in such tests alone and the loop has
    no break / continue / else."""
    import copy as _copy
    n = 0

    class T(ast.NodeTransformer):
        def visit_FunctionDef(self, node):
            return node if node is not fn_node else self.generic_visit(node)
        visit_Lambda = visit_AsyncFunctionDef = lambda self, node: node

        def visit_For(self, node):
            nonlocal n
            self.generic_visit(node)
            it = node.iter
            if not (isinstance(it, ast.Call) and isinstance(it.func, ast.Name) and it.func.id == 'enumerate' and
                    len(it.args) == 1 and not it.keywords and isinstance(node.target, ast.Tuple) and
                    len(node.target.elts) == 2 and isinstance(node.target.elts[0], ast.Name) and not node.orelse):
                return node
            i = node.target.elts[0].id
            if any(isinstance(x, (ast.Break, ast.Continue)) for b in node.body for x in ast.walk(b)):
                return node
            first = [_copy.deepcopy(b) for b in node.body]
            later = [_copy.deepcopy(b) for b in node.body]
            d0, d1 = _DecideCounter(i, True), _DecideCounter(i, False)
            out0, out1 = [], []
            for b in first:
                r = d0.visit(b)
                out0.extend(r if isinstance(r, list) else [r])
            for b in later:
                r = d1.visit(b)
                out1.extend(r if isinstance(r, list) else [r])
            if not (d0.ok and d1.ok):
                return node
            if any(isinstance(x, ast.Name) and x.id == i for b in out0 + out1 for x in ast.walk(b)):
                return node         # the counter is used for something else as well
            if norm_dump(node.body) == norm_dump(out1):
                return node         # nothing depended on the counter
            itn = '_enum_it_%d' % node.lineno
            x = node.target.elts[1]
            stmts = [
                ast.Assign(targets=[ast.Name(id=itn, ctx=ast.Store())],
                           value=ast.Call(func=ast.Name(id='iter', ctx=ast.Load()), args=[it.args[0]], keywords=[])),
                ast.Assign(targets=[_copy.deepcopy(x)],
                           value=ast.Call(func=ast.Name(id='next', ctx=ast.Load()),
                                          args=[ast.Name(id=itn, ctx=ast.Load()), ast.Name(id='_NOHEADER', ctx=ast.Load())], keywords=[])),
            ]
            xl = _copy.deepcopy(x)
            for y in ast.walk(xl):
                if hasattr(y, 'ctx'):
                    y.ctx = ast.Load()
            guard = ast.If(test=ast.Compare(left=xl, ops=[ast.IsNot()], comparators=[ast.Name(id='_NOHEADER', ctx=ast.Load())]),
                           body=out0 + [ast.For(target=_copy.deepcopy(x), iter=ast.Name(id=itn, ctx=ast.Load()), body=out1, orelse=[])],
                           orelse=[])
            stmts.append(guard)
            for st in stmts:
                ast.copy_location(st, node)
                ast.fix_missing_locations(st)
            n += 1
            return stmts
    T().visit(fn_node)
    if n:
        ast.fix_missing_locations(fn_node)
    return n


def norm_dump(stmts):
    return [ast.dump(s) for s in stmts]


def apply(project):
    """peel in place; returns the fq names of the functions changed"""
    changed = []
    for m in list(project.modules.values()):
        if m.name.startswith('petl._controls'):
            continue
        for q, fn in list(m.functions.items()):
            if any(isinstance(x, ast.Starred) for x in ast.walk(fn.node)) and _spread_literal_tuples(fn.node):
                changed.append(fn.fq)
            if any(isinstance(x, ast.Call) and isinstance(x.func, ast.Name) and x.func.id == 'enumerate'
                   for x in ast.walk(fn.node)) and _peel_enumerate(fn.node):
                changed.append(fn.fq)
            if not any((isinstance(x, ast.For) and _chain_tail(x.iter) is not None) or
                       (isinstance(x, ast.Attribute) and x.attr == 'writerows') for x in ast.walk(fn.node)):
                continue
            p = _Peeler({x.id for x in ast.walk(fn.node) if isinstance(x, ast.Name)} |
                        {a.arg for a in ast.walk(fn.node) if isinstance(a, ast.arg)})
            p.generic_visit(fn.node)
            if p.n:
                changed.append(fn.fq)
    return sorted(set(changed))


# ------------------------------------------------------------------ local aliases of view attributes
def _ordered_statements(fn_node):
    """[(index, statement, enclosing loops)] of the function's own statements in source order"""
    out = []

    def visit(stmts, loops):
        for s in stmts:
            out.append((len(out), s, tuple(loops)))
            if isinstance(s, (ast.FunctionDef, ast.AsyncFunctionDef, ast.ClassDef)):
                continue
            inner = loops + [s] if isinstance(s, (ast.For, ast.While, ast.AsyncFor)) else loops
            for field in ('body', 'orelse', 'finalbody'):
                blk = getattr(s, field, None)
                if isinstance(blk, list) and blk and isinstance(blk[0], ast.stmt):
                    visit(blk, inner)
            if isinstance(s, ast.Try):
                for h in s.handlers:
                    visit(h.body, inner)
    visit(fn_node.body, [])
    return out


def _own_walk(s):
    """nodes of a statement without nested function / class bodies and without the bodies of compound statements"""
    todo = [s]
    first = True
    while todo:
        n = todo.pop()
        if not first and isinstance(n, (ast.FunctionDef, ast.AsyncFunctionDef, ast.ClassDef, ast.Lambda)):
            continue
        yield n
        for f, v in ast.iter_fields(n):
            if first and f in ('body', 'orelse', 'finalbody', 'handlers') and isinstance(v, list) and v and \
                    isinstance(v[0], (ast.stmt, ast.ExceptHandler)):
                continue
            if isinstance(v, list):
                todo.extend(x for x in v if isinstance(x, ast.AST))
            elif isinstance(v, ast.AST):
                todo.append(v)
        first = False


def _self_attr(e):
    return isinstance(e, ast.Attribute) and isinstance(e.value, ast.Name) and e.value.id == 'self'


def propagate_self_aliases(fn_node):
    """`spill = self._filecache` ... `spill.seek(0)`  ==  `self._filecache.seek(0)` when the local is bound once, the
    attribute is not stored to after the alias was taken (nor anywhere in a loop around it) and every use follows the
    binding.  Returns the number of aliases written back."""
    if not fn_node.args.args or fn_node.args.args[0].arg != 'self':
        return 0
    order = _ordered_statements(fn_node)
    params = {a.arg for a in ast.walk(fn_node.args) if isinstance(a, ast.arg)}
    stores = {}        # local name -> number of bindings
    attr_stores = {}   # attr -> [(index, loops)]
    alias_def = {}     # local -> (index, stmt, loops, attr node)
    loads = {}         # local -> [index]
    nested_uses = set()
    for n in ast.walk(fn_node):
        if isinstance(n, (ast.FunctionDef, ast.AsyncFunctionDef, ast.Lambda)) and n is not fn_node:
            for x in ast.walk(n):
                if isinstance(x, ast.Name):
                    nested_uses.add(x.id)
        if isinstance(n, (ast.Global, ast.Nonlocal)):
            nested_uses.update(n.names)
    for idx, s, loops in order:
        for x in _own_walk(s):
            if isinstance(x, ast.Name):
                if isinstance(x.ctx, (ast.Store, ast.Del)):
                    stores[x.id] = stores.get(x.id, 0) + 1
                else:
                    loads.setdefault(x.id, []).append(idx)
            elif _self_attr(x) and isinstance(x.ctx, (ast.Store, ast.Del)):
                attr_stores.setdefault(x.attr, []).append((idx, loops))
            elif isinstance(x, ast.ExceptHandler) and x.name:
                stores[x.name] = stores.get(x.name, 0) + 1
        if isinstance(s, ast.Assign) and len(s.targets) == 1 and isinstance(s.targets[0], ast.Name) and _self_attr(s.value):
            alias_def.setdefault(s.targets[0].id, []).append((idx, s, loops, s.value))
    done = 0
    for name, defs in alias_def.items():
        # every binding of the local takes the same attribute (two inlined helpers may both call it `spill`)
        if stores.get(name, 0) != len(defs) or name in params or name in nested_uses:
            continue
        if len({d[3].attr for d in defs}) != 1:
            continue
        idx, stmt, loops, attr = defs[0]
        if any(i <= idx for i in loads.get(name, [])):
            continue
        bad = False
        for didx, _, dloops, _ in defs:
            for si, sloops in attr_stores.get(attr.attr, []):
                if si >= idx or any(l in sloops for l in dloops):
                    bad = True
        if bad:
            continue

        class _R(ast.NodeTransformer):
            def visit_Name(self, node):
                if node.id == name and isinstance(node.ctx, ast.Load):
                    return ast.copy_location(ast.Attribute(value=ast.Name(id='self', ctx=ast.Load()), attr=attr.attr,
                                                           ctx=ast.Load()), node)
                return node

            def visit_FunctionDef(self, node):
                return node

            visit_Lambda = visit_FunctionDef
        for j, s2, _ in order:
            if j > idx:
                for f, v in list(ast.iter_fields(s2)):
                    if f in ('body', 'orelse', 'finalbody', 'handlers') and isinstance(v, list) and v and \
                            isinstance(v[0], (ast.stmt, ast.ExceptHandler)):
                        continue
                    if isinstance(v, list):
                        setattr(s2, f, [(_R().visit(x) if isinstance(x, ast.AST) else x) for x in v])
                    elif isinstance(v, ast.AST):
                        setattr(s2, f, _R().visit(v))
        # the bindings themselves become no-ops
        for _, dstmt, _, _ in defs:
            _remove_statement(fn_node, dstmt)
        done += 1
    if done:
        ast.fix_missing_locations(fn_node)
    return done


def _remove_statement(fn_node, stmt):
    for n in ast.walk(fn_node):
        for field in ('body', 'orelse', 'finalbody'):
            blk = getattr(n, field, None)
            if isinstance(blk, list) and any(b is stmt for b in blk):
                blk[:] = [b for b in blk if b is not stmt] or [ast.copy_location(ast.Pass(), stmt)]
                return


def apply_aliases(project):
    changed = []
    for m in list(project.modules.values()):
        if m.name.startswith('petl._controls'):
            continue
        for q, fn in list(m.functions.items()):
            if fn.cls is None or fn.parent is not None:
                continue
            try:
                if propagate_self_aliases(fn.node):
                    changed.append(fn.fq)
            except RecursionError:
                continue
    for m in list(project.modules.values()):
        if m.name.startswith('petl._controls'):
            continue
        for q, fn in list(m.functions.items()):
            if fn.parent is not None:
                continue
            if not any(isinstance(x, ast.Assign) and isinstance(x.value, ast.Attribute) and len(x.targets) == 1 and
                       isinstance(x.targets[0], ast.Name) for x in ast.walk(fn.node)):
                continue
            try:
                if unhoist_bound_methods(fn.node):
                    changed.append(fn.fq)
            except RecursionError:
                continue
    return sorted(set(changed))


# ------------------------------------------------------------------ hoisted bound methods
def unhoist_bound_methods(fn_node):
    """`write = w.writerow` ... `write(row)`  ==  `w.writerow(row)`  (a bound method looked up once for speed) when the
    local is bound once, only ever called, and -- if the receiver is a name -- that name is not re-bound.  A receiver that
    is an expression (`csv.writer(f).writerow`) is evaluated once into a temporary.  Returns the number rewritten."""
    assigns = {}
    stores = {}
    for n in ast.walk(fn_node):
        if isinstance(n, (ast.FunctionDef, ast.AsyncFunctionDef, ast.Lambda)) and n is not fn_node:
            continue
    order = _ordered_statements(fn_node)
    for idx, s, loops in order:
        for x in _own_walk(s):
            if isinstance(x, ast.Name) and isinstance(x.ctx, (ast.Store, ast.Del)):
                stores[x.id] = stores.get(x.id, 0) + 1
        if isinstance(s, ast.Assign) and len(s.targets) == 1 and isinstance(s.targets[0], ast.Name) and \
                isinstance(s.value, ast.Attribute) and isinstance(s.value.ctx, ast.Load):
            assigns.setdefault(s.targets[0].id, []).append((idx, s))
    params = {a.arg for a in ast.walk(fn_node.args) if isinstance(a, ast.arg)}
    nested_names = set()
    for n in ast.walk(fn_node):
        if isinstance(n, (ast.FunctionDef, ast.AsyncFunctionDef, ast.Lambda)) and n is not fn_node:
            for x in ast.walk(n):
                if isinstance(x, ast.Name):
                    nested_names.add(x.id)
    taken = {x.id for x in ast.walk(fn_node) if isinstance(x, ast.Name)} | params
    done = 0
    for name, defs in assigns.items():
        if len(defs) != 1 or stores.get(name, 0) != 1 or name in params or name in nested_names:
            continue
        idx, stmt = defs[0]
        attr = stmt.value
        # every use is a call of the local, after the binding
        uses = []
        ok = True
        for j, s2, _ in order:
            for x in _own_walk(s2):
                if isinstance(x, ast.Name) and x.id == name and isinstance(x.ctx, ast.Load):
                    uses.append((j, x))
        callee_ids = set()
        for j, s2, _ in order:
            for x in _own_walk(s2):
                if isinstance(x, ast.Call) and isinstance(x.func, ast.Name) and x.func.id == name:
                    callee_ids.add(id(x.func))
        if not uses or any(j <= idx for j, _ in uses) or any(id(x) not in callee_ids for _, x in uses):
            continue
        recv = attr.value
        if isinstance(recv, ast.Name):
            if stores.get(recv.id, 0) > 1:
                continue
            recv_name = recv.id
            stmt_new = None
        else:
            recv_name = '_recv_' + name
            while recv_name in taken:
                recv_name += '_'
            taken.add(recv_name)
            stmt_new = ast.copy_location(ast.Assign(targets=[ast.Name(id=recv_name, ctx=ast.Store())], value=recv,
                                                    type_comment=None), stmt)

        class _R(ast.NodeTransformer):
            def visit_Call(self, node):
                self.generic_visit(node)
                if isinstance(node.func, ast.Name) and node.func.id == name:
                    node.func = ast.copy_location(ast.Attribute(value=ast.Name(id=recv_name, ctx=ast.Load()), attr=attr.attr,
                                                                ctx=ast.Load()), node.func)
                return node

            def visit_FunctionDef(self, node):
                return node

            visit_Lambda = visit_FunctionDef
        for j, s2, _ in order:
            if j > idx:
                for f, v in list(ast.iter_fields(s2)):
                    if f in ('body', 'orelse', 'finalbody', 'handlers') and isinstance(v, list) and v and \
                            isinstance(v[0], (ast.stmt, ast.ExceptHandler)):
                        continue
                    if isinstance(v, list):
                        setattr(s2, f, [(_R().visit(x) if isinstance(x, ast.AST) else x) for x in v])
                    elif isinstance(v, ast.AST):
                        setattr(s2, f, _R().visit(v))
        if stmt_new is not None:
            stmt.targets = stmt_new.targets
            stmt.value = stmt_new.value
        else:
            _remove_statement(fn_node, stmt)
        done += 1
    if done:
        ast.fix_missing_locations(fn_node)
    return done
