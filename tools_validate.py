#!/usr/bin/env python3
"""Validate MANIFEST.json and evidence/*.json against the schemas (needs jsonschema: run with python3-vt)."""
import json, sys, glob, jsonschema
ok = True
m = json.load(open('/verif/MANIFEST.json'))
jsonschema.validate(m, json.load(open('/root/.vp/MANIFEST.schema.json')))
es = json.load(open('/root/.vp/EVIDENCE.schema.json'))
for c in m['checks']:
    try:
        jsonschema.validate(json.load(open(c['evidence_file'])), es)
    except Exception as e:
        ok = False
        print('BAD', c['evidence_file'], str(e)[:200])
claimed = {c['property_id'] for c in m['checks']}
na = {x['property_id'] for x in m.get('not_applicable', [])}
allp = {json.loads(l)['id'] for l in open('/verif/properties.jsonl')}
if claimed & na or (claimed | na) != allp:
    ok = False
    print('BAD partition', claimed & na, allp - claimed - na)
print('valid' if ok else 'INVALID', len(claimed), 'claimed', len(na), 'n/a')
sys.exit(0 if ok else 1)
